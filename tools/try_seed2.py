#!/usr/bin/env python3
"""Take over a second-batch seeded change from /var/tmp/seed2/Cxx (produced by
a sub-agent that saw only the property text), store it under
/verif/seeded/Cxx-s2, register it in selftest/cases.json and run it."""
import json, os, shutil, subprocess, sys
V = '/verif'
for prop in sys.argv[1:]:
    src = '/var/tmp/seed2/' + prop
    if not os.path.exists(src + '/patch.diff') or os.path.getsize(src + '/patch.diff') == 0:
        print(prop, 'no patch yet'); continue
    dst = V + '/seeded/%s-s2' % prop
    os.makedirs(dst, exist_ok=True)
    for f in ('patch.diff', 'demo_test.go', 'meta.json'):
        if os.path.exists(src + '/' + f):
            shutil.copy(src + '/' + f, dst + '/' + f)
    p = V + '/selftest/cases.json'
    c = json.load(open(p))
    name = 'seeded2_%s' % prop
    if not any(e['name'] == name for e in c):
        c.append({"name": name, "property": prop, "patch": "seeded/%s-s2/patch.diff" % prop, "expect": "", "what": "second-batch seeded change %s-s2" % prop})
        json.dump(c, open(p, 'w'), indent=1)
    r = subprocess.run(['python3-vt', V + '/tools/selftest.py', '-j', '2', name], capture_output=True, text=True)
    print((r.stdout + r.stderr)[-1500:])
