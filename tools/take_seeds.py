#!/usr/bin/env python3
"""Take over finished seeded changes of a batch directory (/var/tmp/seedN/Cxx
with patch.diff + meta.json) into /verif/seeded/Cxx-sN, register them in
selftest/cases.json and print the names that are new."""
import json, os, shutil, sys
batch, suffix = sys.argv[1], sys.argv[2]   # e.g. /var/tmp/seed3 s3
V = '/verif'
p = V + '/selftest/cases.json'
c = json.load(open(p))
new = []
for i in range(1, 21):
    prop = 'C%02d' % i
    src = '%s/%s' % (batch, prop)
    if not (os.path.exists(src + '/patch.diff') and os.path.getsize(src + '/patch.diff') > 0 and os.path.exists(src + '/meta.json')):
        continue
    name = 'seeded_%s_%s' % (suffix, prop)
    if any(e['name'] == name for e in c):
        continue
    dst = V + '/seeded/%s-%s' % (prop, suffix)
    os.makedirs(dst, exist_ok=True)
    for f in ('patch.diff', 'demo_test.go', 'meta.json'):
        if os.path.exists(src + '/' + f):
            shutil.copy(src + '/' + f, dst + '/' + f)
    c.append({"name": name, "property": prop, "patch": "seeded/%s-%s/patch.diff" % (prop, suffix), "expect": "", "what": "seeded change %s-%s (batch %s)" % (prop, suffix, suffix)})
    new.append(name)
json.dump(c, open(p, 'w'), indent=1)
print(' '.join(new))
