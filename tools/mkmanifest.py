#!/usr/bin/env python3
"""Regenerates /verif/MANIFEST.json from the table below (kept in one place so it stays valid)."""
import json, os

ENV = "export GOFLAGS=-mod=mod GOPROXY=off GOSUMDB=off GOTOOLCHAIN=local; "

CLAIMED = {
 # id: (category, level text, level note, technique, design_ref)
}

NOT_APPLICABLE = {
 # id: reason
}

def load_tables():
    import importlib.util
    p = os.path.join(os.path.dirname(__file__), "manifest_table.py")
    spec = importlib.util.spec_from_file_location("manifest_table", p)
    m = importlib.util.module_from_spec(spec); spec.loader.exec_module(m)
    return m.CLAIMED, m.NOT_APPLICABLE, m.HOOK_COMMITS

def main():
    claimed, na, hooks = load_tables()
    checks = []
    for pid in sorted(claimed):
        cat, text, note, tech, ref = claimed[pid]
        checks.append({
            "property_id": pid,
            "quick_cmd": ENV + "/verif/bin/gv check -property %s -tier quick" % pid,
            "thorough_cmd": ENV + "/verif/bin/gv check -property %s -tier thorough" % pid,
            "evidence_file": "/verif/evidence/%s.json" % pid,
            "replay_cmd_template": ENV + "/verif/bin/gv replay {path}",
            "engine": "gv",
            "level_claimed": {"category": cat, "text": text, "design_ref": ref},
            "level_note": note,
            "technique": tech,
        })
    man = {
        "version": 1,
        "setup_cmd": ENV + "cd /verif/gv && go build -o /verif/bin/gv .",
        "hooks": {
            "guard": "verif",
            "enable": "go build -tags verif ./... (the tag only adds comment-only contract files zz_verif_contracts.go; gv loads /repo with -tags verif)",
            "baseline_off_cmd": ENV + "cd /repo && go test -vet=off -count=1 -timeout 25m ./...",
            "source_commits": hooks,
            "add_only": True,
        },
        "engines": [{
            "name": "gv",
            "path": "/verif/gv",
            "serves_properties": sorted(claimed),
            "kind_free_text": "contract-based deductive verifier for Go written for this task: go/packages + go/ssa (x/tools v0.29.0) -> verification conditions by forward symbolic execution with loops cut at invariants -> z3 4.8.12 / z3-new 5.1.0 / cvc5 raced per obligation; contracts are //@ comments in /repo/**/zz_verif_contracts.go (build tag verif) and assumed contracts of external packages in /verif/contracts/*.gvc; refutations are replayed on the real code through go test -overlay",
        }],
        "checks": checks,
        "notes": "Exit codes of every check: 0 = all obligations of the property discharged (known findings printed as KNOWN-FINDING lines), 1 = VIOLATION line(s), 2 = engine error / vacuity guard (never a VIOLATION). See DESIGN.md.",
        "not_applicable": [{"property_id": k, "reason": na[k]} for k in sorted(na)],
    }
    with open("/verif/MANIFEST.json", "w") as f:
        json.dump(man, f, indent=1)
        f.write("\n")
    try:
        import jsonschema
        jsonschema.validate(man, json.load(open("/root/.vp/MANIFEST.schema.json")))
        print("MANIFEST.json valid;", len(checks), "checks,", len(na), "not applicable")
    except ImportError:
        print("MANIFEST.json written (jsonschema not available to validate)")

if __name__ == "__main__":
    main()
