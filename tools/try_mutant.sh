#!/bin/bash
# usage: try_mutant.sh <patch.diff> <property>...   — apply to /repo, run checks, revert.
set -u
diff=$1; shift
cd /repo || exit 2
if ! git apply --check "$diff" 2>/dev/null; then echo "patch does not apply: $diff"; exit 2; fi
git apply "$diff"
trap 'git -C /repo checkout -- . >/dev/null 2>&1' EXIT
for p in "$@"; do
  echo "=== $p with $(basename $(dirname $diff))/$(basename $diff)"
  (cd /verif && ./bin/gv check -property "$p" > /tmp/tm.out 2>&1; echo "exit=$?"; grep -E "^(gv:|VIOLATION|ENGINE-ERROR|UNDECIDED|NOTE)" /tmp/tm.out | cut -c1-300)
  
done
