#!/bin/bash
# usage: confirm_seed.sh <Cxx> <k>  — confirms sub-agent mutant k for property Cxx in a scratch worktree:
#   (1) patch applies, builds, whole suite passes with it; (2) demo fails with it; (3) demo passes without it.
# On success copies it to /verif/seeded/<Cxx>-m<k>/ (patch.diff, demo_test.go, meta.json).
set -u
export GOFLAGS=-mod=mod GOPROXY=off GOSUMDB=off GOTOOLCHAIN=local
P=$1; K=$2
src=/tmp/seedout/$P
diff=$src/mutant$K.diff; demo=$src/mutant${K}_demo_test.go; meta=$src/mutant$K.json
[ -f "$diff" ] && [ -f "$demo" ] || { echo "missing files for $P m$K"; exit 2; }
base=$(git -C /repo rev-list --max-parents=0 HEAD | tail -1)
wt=/var/tmp/confirm-$P-$K-$$
git -C /repo worktree add --detach "$wt" "$base" >/dev/null 2>&1 || { echo "worktree failed"; exit 2; }
cleanup() { git -C /repo worktree remove --force "$wt" >/dev/null 2>&1; rm -rf "$wt"; }
trap cleanup EXIT
dir=$(head -3 "$demo" | grep -o 'dir: *[^ ]*' | head -1 | sed 's/dir: *//'); dir=${dir:-.}
name="TestSeed${P}M${K}"
cd "$wt"
git apply --check "$diff" || { echo "FAIL: patch does not apply"; exit 1; }
# demo passes without
cp "$demo" "$wt/$dir/zz_seed_demo_test.go"
if ! go test -vet=off -count=1 -timeout 120s -run "^$name\$" "./$dir/" >/tmp/cs.out 2>&1; then echo "FAIL: demo does not pass on clean code"; tail -5 /tmp/cs.out; exit 1; fi
grep -q "no tests to run" /tmp/cs.out && { echo "FAIL: demo test not found ($name in $dir)"; exit 1; }
rm "$wt/$dir/zz_seed_demo_test.go"
git apply "$diff"
go build ./... >/tmp/cs.out 2>&1 || { echo "FAIL: does not build"; tail -5 /tmp/cs.out; exit 1; }
if ! go test -vet=off -count=1 -timeout 300s ./... >/tmp/cs.out 2>&1; then echo "FAIL: existing suite fails with mutant"; grep -E "^(--- FAIL|FAIL)" /tmp/cs.out | head -5; exit 1; fi
cp "$demo" "$wt/$dir/zz_seed_demo_test.go"
if go test -vet=off -count=1 -timeout 120s -run "^$name\$" "./$dir/" >/tmp/cs.out 2>&1; then echo "FAIL: demo passes with mutant"; exit 1; fi
out=/verif/seeded/$P-m$K
mkdir -p "$out"
cp "$diff" "$out/patch.diff"; cp "$demo" "$out/demo_test.go"
python3 - "$meta" "$out/meta.json" "$P" "$K" "$dir" "$name" <<'PY'
import json,sys
src,dst,P,K,d,name=sys.argv[1:]
try: m=json.load(open(src))
except Exception: m={}
meta={"id":"%s-m%s"%(P,K),"property":P,"summary":m.get("summary",""),"needs":m.get("needs",""),"clause":m.get("clause",""),
 "files":m.get("files",[]),"demo":{"dir":d,"test":name,"file":"demo_test.go"},
 "confirmed_by":"tools/confirm_seed.sh in a scratch worktree of the pinned commit: patch applies and builds; `go test -vet=off -count=1 ./...` passes with the patch; the demo test fails with the patch and passes without it",
 "source":"independent sub-agent given only the property text and its own worktree"}
json.dump(meta,open(dst,"w"),indent=1)
PY
echo "CONFIRMED $P m$K -> $out"
