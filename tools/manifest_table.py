# Table behind MANIFEST.json. Edit here, then run tools/mkmanifest.py.
HOOK_COMMITS = ["02ed0ef"]

PENDING = "not claimed yet: the machinery for this property is not built/validated at this commit (work in progress, see DESIGN.md section 12); no other technique is substituted"

CLAIMED = {
 "C06": ("proof",
   "Every obligation generated from the real SSA of compareDatesForLetter, DateRange.Compare, Date.Time and the three simplified-verdict predicates is discharged by SMT for all inputs: the result is the documented relation of the two day intervals for every 4-tuple of end points (all orderings and coincidences, every granularity, all years 1..9999), never Invalid, Equal on identical ranges, converse under swapping (lemma over the matrix read from the current source), exactly one simplified verdict. Known single-day defects are carved out by predicate and kept visible as KNOWN-FINDING.",
   "Assumed (validated in the thorough tier against the real package): the contracts of time.Parse/AddDate/Truncate/Equal/Before/After/IsZero and fmt.Sprintf for the three date formats in /verif/contracts/time.gvc; time.Time modelled as integer nanoseconds; int mathematical. Trusted: gv's VC generator, go/ssa, the SMT solvers.",
   "contract-based deductive verification: WP/symbolic execution over go/ssa, SMT (z3/cvc5), model replay via go test -overlay",
   "DESIGN.md section 8 C06"),
}

NOT_APPLICABLE = {pid: PENDING for pid in ["C%02d" % i for i in range(1, 21)] if pid not in CLAIMED}
