# Table behind MANIFEST.json. Edit here, then run tools/mkmanifest.py.
import subprocess
HOOK_COMMITS = subprocess.run(["git","-C","/repo","log","--format=%h","--grep=^verif:"],capture_output=True,text=True).stdout.split()

PENDING = "not claimed yet: the machinery for this property is not built/validated at this commit (work in progress, see DESIGN.md section 12); no other technique is substituted"

TECH = "contract-based deductive verification: VCs by symbolic execution of go/ssa against //@ contracts, SMT (z3/z3-new/cvc5 raced), frame contracts by modular effect summaries, model replay via go test -overlay"

CLAIMED = {
 "C05": ("proof",
   "Date.Time, Date.Years, IsBefore/IsAfter, Sub, DateRange.Duration/Years/IsBefore/IsAfter and NewDuration are verified against calendar spec functions (dayno, dim, diy, yday) for all valid full, month-year and year-only dates of years 1..9999, and the property's statements (start<=end, true period length incl. leap years, strictly increasing Years from each day to the next across month and year ends, partial dates inside their period, before/after = calendar order) are lemmas over those spec functions discharged by SMT. The year-1 end-bound defect is a known finding carved out by predicate.",
   "Assumed and validated in the thorough tier against the real package: contracts of time.Parse/Date/AddDate/Add/Year/Month/Day/YearDay/IsZero and fmt.Sprintf for the three date formats (/verif/contracts/time.gvc); time.Time = integer ns; float64 = Real (strictness needs a gap of 1/367 against ulp(9999) ~ 1.8e-12: argued, cross-checked by execution in the thorough tier); int mathematical. DateNodes.Minimum/Maximum are not under contract yet.",
   TECH, "DESIGN.md section 8 C05"),
 "C06": ("proof",
   "Every obligation generated from the real SSA of compareDatesForLetter, DateRange.Compare, Date.Time and the three simplified-verdict predicates is discharged by SMT for all inputs: the result is the documented relation of the two day intervals for every 4-tuple of end points (all orderings and coincidences, every granularity, all years 1..9999), never Invalid, Equal on identical ranges, converse under swapping (lemma over the matrix read from the current source), exactly one simplified verdict. Known single-day defects are carved out by predicate and kept visible as KNOWN-FINDING.",
   "Assumed (validated in the thorough tier against the real package): the contracts of time.Parse/AddDate/Truncate/Equal/Before/After/IsZero and fmt.Sprintf for the three date formats in /verif/contracts/time.gvc; time.Time modelled as integer nanoseconds; int mathematical. Trusted: gv's VC generator, go/ssa, the SMT solvers.",
   TECH, "DESIGN.md section 8 C06"),
 "C07": ("other",
   "Decided: the deep-copy half of the property as a frame contract on DeepCopy - the copy and every node reachable from it through child edges is created by the call (shares no node with the source), and the call writes nothing but caches and the destination document. Not decided by this check: that deep equality is an order-insensitive equivalence (greedy matching over whole trees, see DESIGN.md section 9).",
   "Frame engine: modular may-write/may-link summaries over go/ssa with allocation-site objects; sound over-approximation, refutations carry no input (no-failing-input-found). Assumed: external packages' frames (listed in evidence), CHA call graph for interface calls, append into spare capacity not counted as a write.",
   TECH, "DESIGN.md section 8 C07"),
 "C08": ("other",
   "Decided: 'computing, printing, sorting or querying a diff never modifies the compared trees' as frame contracts on CompareNodes, traverse, String, IsDeepEqual, Sort, Tag (allowed writes on pre-existing objects: caches and the NodeDiff's own fields). NodeDiff.Sort violates it (known finding, canary replayed). Not decided yet: provenance/coverage of the entries (functional contracts on traverse).",
   "Frame engine as for C07. The Sort defect is listed in known_findings.json by obligation name; any other write to the inputs is a new obligation and is reported.",
   TECH, "DESIGN.md section 8 C08"),
 "C09": ("other",
   "Decided: 'the result is built from fresh nodes: inputs are never modified and later changes to the result never show through' as frame + result-fresh contracts on MergeNodes, MergeNodeSlices, EqualityMergeFunction and DeepCopy (holds after the fix: commit). Not decided yet: length bounds / merged-at-most-once invariants of MergeNodeSlices and per-child coverage of MergeNodes.",
   "Frame engine as for C07; merge function parameters are resolved through the CHA call graph (all functions of type MergeFunction).",
   TECH, "DESIGN.md section 8 C09"),
 "C12": ("other",
   "Decided for all inputs: date similarity equals the documented parabola of the distance in years (value contract on DateRange.Similarity over the Years contract of C05), lies in [0,1], is symmetric, 1 at distance 0, 0 beyond maxYears and non-increasing in the distance (lemmas, nonlinear real arithmetic); missing dates score exactly 0.5; the weighted surrounding similarity is in [0,1] for components in [0,1] and non-negative weights summing to 1, and 1 on identity; the default options have non-negative weights summing to 1 (within 1e-12) and a Jaro prefix size <= 10. Not decided yet: Jaro/JaroWinkler bounds, individual and list similarity.",
   "float64 = Real (no rounding, no NaN); DateNode.DateRange is opaque (trusted contract: writes only its two cache fields).",
   TECH, "DESIGN.md section 8 C12"),
 "C13": ("other",
   "Decided: half (a) of the property - every read-only operation it names (Warnings, String/GEDCOMString, Individuals, Families, NodeByPointer, Places, Sources, NodesWithTag(Path), all IndividualNode and FamilyNode read accessors, Similarity, SurroundingSimilarity, IndividualNodes.Compare incl. its goroutine bodies, CompareNodes, DeepCopy/Filter/Flatten into another document) may write no ABSTRACT field (tag, value, pointer, children, node lists, document links) of any pre-existing object: frame contracts checked against effect summaries of the real SSA, 60+ functions. Document.Warnings violated it and was repaired (fix: commit, canary kept). Not decided yet: half (b), coherence of the cached views after edits.",
   "Frame engine as for C07 (sound may-write analysis; refutations without input). Reads performed through reflection in package q are not covered. The induction over histories (each operation preserves 'abstract state unchanged') is the standard argument, not machine-checked.",
   TECH, "DESIGN.md section 8 C13"),
 "C11": ("other",
   "Decided: the data-race clause as a frame condition - every goroutine body of the matching pipeline (closures started with go or handed to util.WorkerPool in createJobs, createPointerJobs, createUniqueJobs, processJobs, collectResults, calculateWinners, getTotals) may write pre-existing memory only through channels, sync primitives, under a mutex, or on an object it received from a channel. The lazily filled caches (Document.families, IndividualNode.families/spouses/cachedUniqueIDs, FamilyNode.husband/wife, DateNode.parsedDateRange) violate it: 13 known findings, confirmed under go test -race by a canary; any other unsynchronised shared write is a new obligation and is reported. Not decided: that the result is a valid one-to-one matching (sequential contracts on calculateWinners/createUniqueJobs not written yet) and everything about schedules (delivery of every job exactly once, termination, independence of interleaving) - protocol-level, outside contract-based verification (DESIGN.md section 9).",
   "Sufficient, not necessary, condition for race freedom; frame engine assumptions as for C07; ownership transfer through channels and the ordering argument for options.leftLen/rightLen are assumed (stated in the contract file).",
   TECH, "DESIGN.md section 8 C11"),
 "C18": ("other",
   "Decided: the escaping clause as a ghost predicate html_safe checked modularly over every function of html, html/core, q/html_formatter.go and warnings.go (260+ functions): the predicate's preconditions and field invariants are derived from the code (which constructor parameters and struct fields reach the byte sink un-escaped: NewHTML, NewTag tag and attribute keys, class/style/colour parameters, ...), and every call site and field store is an obligation that fails when text coming out of package gedcom meets such a requirement. Attribute values, anchor names and table heads were unescaped sinks: repaired (fix: commit, canary kept). Not decided yet: well-nestedness of the literal templates; JavaScript context inside onclick.",
   "Assumed: html.EscapeString and the package-level strings.Replacer/regexp sanitisers (read from their constant arguments) establish the predicate; string functions of external packages preserve it; string literals of the analysed packages are trusted markup; flow-insensitive may-analysis (refutations carry no input).",
   TECH, "DESIGN.md section 8 C18"),
 "C19": ("other",
   "Decided: (1) confinement - every name given to core.NewFile satisfies the ghost predicate fname_safe (constants, sanitised keys, integers), checked modularly over html and html/core; the source page name was the raw pointer: repaired (fix: commit, canary kept). (2) no process-wide state - every package-level variable of html and html/core is init-only (one obligation per variable, callee effects from the frame engine), except the per-document surnames cache; the old shared surnames set was repaired (fix: commit, canary kept). Not decided: link closure over the bytes of all pages, identity across goroutine schedules and job counts, stop-instead-of-hang on writer failure (whole-site / schedule properties, DESIGN.md section 9); race frames of the publishing goroutines exist (html contract file, tag X19) but the whole-package effect summary is too slow and too coarse to register.",
   "Ghost-predicate engine assumptions as for C18 (regexp sanitiser alnumOrDashRegexp / sourcePageRegexp read from their literal patterns); package-state check assumes globals are modified only through values loaded directly from them.",
   TECH, "DESIGN.md section 8 C19"),
}

NOT_APPLICABLE = {pid: PENDING for pid in ["C%02d" % i for i in range(1, 21)] if pid not in CLAIMED}
