#!/usr/bin/env python3
"""Must-pass check: a scratch copy of /repo with harmless edits (comments,
blank lines, a new unrelated function, two independent statements swapped, an
extra local in a swept function) must pass every registered quick check with
no VIOLATION. Run after changes to the baseline / regression rules."""
import os, shutil, subprocess, sys, tempfile
V = '/verif'
ENV = dict(os.environ, GOFLAGS='-mod=mod', GOPROXY='off', GOSUMDB='off', GOTOOLCHAIN='local')
EDITS = [
 ('decoder.go', 'func (dec *Decoder) Decode() (*Document, error) {\n', 'func (dec *Decoder) Decode() (*Document, error) {\n\t// A harmless comment.\n\n'),
 ('util.go', 'func valueToPointer(val string) string {', 'func harmlessHelper(a, b int) int {\n\tif a > b {\n\t\treturn a\n\t}\n\n\treturn b\n}\n\nfunc valueToPointer(val string) string {'),
 ('decoder.go', '\tfinished := false\n\tlineNumber := 0\n', '\tlineNumber := 0\n\tfinished := false\n'),
 ('date.go', '\tmonthName, err := parseMonthName(parts, monthPos)', '\tmonthName, err := parseMonthName(parts, monthPos) // month'),
 ('husband_node.go', '\tn := node.family.document.NodeByPointer(valueToPointer(node.value))', '\tpointer := valueToPointer(node.value)\n\tn := node.family.document.NodeByPointer(pointer)'),
 ('html/individual_name.go', '\tisLiving := c.individual.IsLiving()\n\tif isLiving {', '\tisLiving := c.individual.IsLiving()\n\n\t// Living individuals may be hidden.\n\tif isLiving {'),
 ('date_range.go', '\tcase valueTime.Equal(startTime):\n\t\treturn "e"\n\n\tcase valueTime.Equal(endTime):\n\t\treturn "E"\n\n\tcase valueTime.Before(startTime):\n\t\treturn "b"\n\n\tcase valueTime.After(endTime):\n\t\treturn "A"\n', '\tcase valueTime.Before(startTime):\n\t\treturn "b"\n\n\tcase valueTime.After(endTime):\n\t\treturn "A"\n\n\tcase valueTime.Equal(endTime):\n\t\treturn "E"\n\n\tcase valueTime.Equal(startTime):\n\t\treturn "e"\n'),
 ('family_node.go', '\t\tnode.resetDocumentCaches()\n\t\tnode.husband = nil\n\t\tnode.cachedHusband = true\n', '\t\tnode.resetDocumentCaches()\n\t\tnode.resetCache()\n'),
 ('jaro.go', 'prefixMatch', 'prefixHits', 'all'),  # a renamed local that a contract names: STALE-CONTRACT, no alarm
 ('node_diff.go', '\t\t\tif diffChild.Left != nil && diffChild.Left.Equals(child) {\n\t\t\t\tdiffChild.traverse(child, isLeft)\n\t\t\t\tfound = true\n\t\t\t\tbreak\n\t\t\t}\n\n\t\t\tif diffChild.Right != nil && diffChild.Right.Equals(child) {\n\t\t\t\tdiffChild.traverse(child, isLeft)\n\t\t\t\tfound = true\n\t\t\t\tbreak\n\t\t\t}\n', '\t\t\tif diffChild.Right != nil && diffChild.Right.Equals(child) {\n\t\t\t\tdiffChild.traverse(child, isLeft)\n\t\t\t\tfound = true\n\t\t\t\tbreak\n\t\t\t}\n\n\t\t\tif diffChild.Left != nil && diffChild.Left.Equals(child) {\n\t\t\t\tdiffChild.traverse(child, isLeft)\n\t\t\t\tfound = true\n\t\t\t\tbreak\n\t\t\t}\n'),
 ('q/token.go', '\toriginalPosition := t.Position\n', '\toriginalPosition := t.Position // remember where we started\n'),
]
tmp = tempfile.mkdtemp(prefix='gvharmless-')
try:
    repo = tmp + '/repo'
    subprocess.run(['rsync', '-a', '--exclude', '.git', '/repo/', repo + '/'], check=True)
    for e in EDITS:
        f, old, new = e[0], e[1], e[2]
        p = os.path.join(repo, f); s = open(p).read()
        if s.count(old) != 1 and not (len(e) > 3 and e[3] == 'all' and s.count(old) > 1):
            print('STALE edit in', f); sys.exit(2)
        open(p, 'w').write(s.replace(old, new))
    if subprocess.run(['go', 'build', './...'], cwd=repo, env=ENV).returncode != 0:
        sys.exit(2)
    bad = 0
    for i in range(1, 21):
        prop = 'C%02d' % i
        r = subprocess.run([V + '/bin/gv', 'check', '-property', prop], env=dict(ENV, GV_REPO=repo, GV_OUT=tmp + '/out'), capture_output=True, text=True)
        v = [l for l in (r.stdout + r.stderr).splitlines() if l.startswith('VIOLATION')]
        print(prop, 'exit', r.returncode, 'violations', len(v))
        if r.returncode != 0 or v:
            bad += 1
            for l in v[:3]:
                print('  ', l[:200])
    print('harmless edits:', 'no alarm' if bad == 0 else '%d checks raised an alarm' % bad)
    sys.exit(1 if bad else 0)
finally:
    shutil.rmtree(tmp, ignore_errors=True)
