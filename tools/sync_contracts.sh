#!/bin/bash
# Copies the master copies of the contract files (/verif/repo_contracts/**) into
# /repo and commits them there as one hook commit (comment-only files behind
# the build tag `verif`). Master copies live in /verif so that reverting a
# seeded mutant in /repo (git checkout -- .) can never lose contract edits.
set -e
cd /verif/repo_contracts
changed=0
for f in $(find . -name zz_verif_contracts.go); do
  d=$(dirname "$f")
  if ! cmp -s "$f" "/repo/$f"; then cp "$f" "/repo/$f"; fi
  git -C /repo add "$f"
done
if ! git -C /repo diff --cached --quiet; then changed=1; fi
if [ $changed = 1 ]; then
  git -C /repo commit -qm "verif: contracts (comment-only, build tag verif)${1:+: $1}"
  git -C /repo log --oneline | head -1
else
  echo "contracts already in sync"
fi
