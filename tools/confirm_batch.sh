#!/bin/bash
# usage: confirm_batch.sh <batchdir> <Cxx> <testname>
# Confirms a sub-agent's seeded change (<batchdir>/<Cxx>/out/{patch.diff,demo_test.go}) in a scratch
# worktree of /repo HEAD: (1) the patch applies, (2) the demonstration passes without it, (3) with it the
# module builds and the WHOLE existing suite passes, (4) the demonstration fails with it.
set -u
export GOFLAGS=-mod=mod GOPROXY=off GOSUMDB=off GOTOOLCHAIN=local
B=$1; P=$2; T=$3
src=$B/$P/out
diff=$src/patch.diff; demo=$src/demo_test.go
[ -s "$diff" ] && [ -f "$demo" ] || { echo "$P: missing files"; exit 2; }
wt=/var/tmp/confirm-$P-$$
git -C /repo worktree add --detach "$wt" HEAD >/dev/null 2>&1 || { echo "$P: worktree failed"; exit 2; }
log=/var/tmp/confirm-$P.log
cleanup() { git -C /repo worktree remove --force "$wt" >/dev/null 2>&1; rm -rf "$wt"; }
trap cleanup EXIT
dir=$(head -3 "$demo" | grep -o 'dir: *[^ ]*' | head -1 | sed 's/dir: *//'); dir=${dir:-.}
cd "$wt"
git apply --check "$diff" 2>/dev/null || git apply --check -3 "$diff" 2>/dev/null || { echo "$P: FAIL patch does not apply"; exit 1; }
cp "$demo" "$wt/$dir/zz_seed_demo_test.go"
if ! go test -vet=off -count=1 -timeout 300s -run "^$T\$" "./$dir/" >$log 2>&1; then echo "$P: FAIL demo does not pass on clean code"; tail -5 $log; exit 1; fi
grep -q "no tests to run" $log && { echo "$P: FAIL demo test not found ($T in $dir)"; exit 1; }
rm "$wt/$dir/zz_seed_demo_test.go"
git apply "$diff" 2>/dev/null || git apply -3 "$diff"
go build ./... >$log 2>&1 || { echo "$P: FAIL does not build"; tail -5 $log; exit 1; }
if ! go test -vet=off -count=1 -timeout 900s ./... >$log 2>&1; then echo "$P: FAIL existing suite fails with the change"; grep -E "^(--- FAIL|FAIL)" $log | head -5; exit 1; fi
cp "$demo" "$wt/$dir/zz_seed_demo_test.go"
if go test -vet=off -count=1 -timeout 300s -run "^$T\$" "./$dir/" >$log 2>&1; then echo "$P: FAIL demo passes WITH the change"; exit 1; fi
echo "$P: CONFIRMED (dir $dir)"
