#!/usr/bin/env python3
"""Must-fail corpus: every case is a small change to a scratch copy of /repo
that breaks a property; the registered check has to report a VIOLATION naming
the expected obligation. Run after every engine or contract change.
usage: tools/selftest.py [-j N] [name-substring ...]"""
import json, os, shutil, subprocess, sys, tempfile, concurrent.futures as cf
V = '/verif'
cases = json.load(open(V + '/selftest/cases.json'))
args = sys.argv[1:]
jobs = 4
if args[:1] == ['-j']:
    jobs = int(args[1]); args = args[2:]
if args:
    cases = [c for c in cases if any(a in c['name'] for a in args)]
ENV = dict(os.environ, GOFLAGS='-mod=mod', GOPROXY='off', GOSUMDB='off', GOTOOLCHAIN='local')

def run(c):
    tmp = tempfile.mkdtemp(prefix='gvself-')
    try:
        repo = tmp + '/repo'
        subprocess.run(['rsync', '-a', '--exclude', '.git', '/repo/', repo + '/'], check=True)
        if c.get('patch'):
            r = subprocess.run(['patch', '-p1', '-s', '--no-backup-if-mismatch', '-i', os.path.join(V, c['patch'])], cwd=repo, capture_output=True, text=True)
            if r.returncode != 0:
                return c, 'STALE', 'patch does not apply: ' + (r.stdout + r.stderr)[-200:]
        else:
            p = os.path.join(repo, c['file'])
            s = open(p).read()
            if s.count(c['old']) != 1:
                return c, 'STALE', 'pattern occurs %d times in %s' % (s.count(c['old']), c['file'])
            open(p, 'w').write(s.replace(c['old'], c['new']))
        b = subprocess.run(['go', 'build', './...'], cwd=repo, env=ENV, capture_output=True, text=True)
        if b.returncode != 0:
            return c, 'STALE', 'does not compile: ' + b.stderr[-300:]
        env = dict(ENV, GV_REPO=repo, GV_OUT=tmp + '/out')
        cmd = [V + '/bin/gv', 'check', '-property', c['property']]
        if c.get('tier'):
            cmd += ['-tier', c['tier']]
        r = subprocess.run(cmd, env=env, capture_output=True, text=True, timeout=int(c.get('timeout', 900)))
        out = r.stdout + r.stderr
        viol = [l for l in out.splitlines() if l.startswith('VIOLATION')]
        if r.returncode == 1 and viol and c['expect'] in out:
            return c, 'CAUGHT', viol[0][:200]
        return c, 'MISSED', 'exit=%d %s' % (r.returncode, out[-600:])
    except subprocess.TimeoutExpired:
        return c, 'MISSED', 'timeout'
    finally:
        shutil.rmtree(tmp, ignore_errors=True)

bad = 0
known_missed = 0
with cf.ThreadPoolExecutor(jobs) as ex:
    for c, verdict, info in ex.map(run, cases):
        print('%-7s %-34s %s' % (verdict, c['name'], info if verdict != 'CAUGHT' else info[:120]))
        if verdict == 'MISSED' and c.get('known_miss'):
            # a change the technique cannot decide (recorded in DESIGN.md): it
            # must stay listed, and if a check ever catches it that is news too
            known_missed += 1
            print('        (known miss: %s)' % c['known_miss'])
        elif verdict != 'CAUGHT':
            bad += 1
print('selftest: %d cases, %d not caught, %d known misses' % (len(cases), bad, known_missed))
sys.exit(1 if bad else 0)
