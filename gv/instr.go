package main

import (
	"fmt"
	"go/constant"
	"go/token"
	"go/types"
	"math/big"
	"sort"
	"strings"

	"golang.org/x/tools/go/ssa"
)

// runBody executes fn's blocks from (st0, pc0); returns are collected in fr.rets.
func (ex *Exec) runBody(fr *Frame, st0 *State, pc0 Term) {
	fn := fr.fn
	ci := analyseCFG(fn)
	if ci.irreducible {
		ex.unsup("irreducible control flow in " + fr.label)
	}
	ex.assignLoopOrdinals(fn, ci)
	fr.loops = ci.loops
	if fr.isTop && ex.contract != nil {
		matched := map[int]bool{}
		for _, li := range ci.loops {
			if ls, ok := ex.contract.Loops[li.ord]; ok {
				li.spec = ls
				matched[li.ord] = true
			}
		}
		// a loop clause whose loop does not exist (any more) is not silently
		// dropped: the code under contract has changed shape
		var ords []int
		for ord := range ex.contract.Loops {
			ords = append(ords, ord)
		}
		sort.Ints(ords)
		for _, ord := range ords {
			if !matched[ord] {
				fr.blockPC = tTrue
				ex.oblige(fr, fmt.Sprintf("loop%d.exists", ord), "the contract names a loop the function does not have", tTrue, tFalse, fn.Pos())
			}
		}
	}
	pcOut := map[*ssa.BasicBlock]Term{}
	stOut := map[*ssa.BasicBlock]*State{}

	edgeCond := func(p, b *ssa.BasicBlock) Term {
		if len(p.Instrs) == 0 {
			return tTrue
		}
		if iff, ok := p.Instrs[len(p.Instrs)-1].(*ssa.If); ok {
			if p.Succs[0] == p.Succs[1] {
				return tTrue
			}
			c := ex.boolTerm(ex.get(fr, iff.Cond))
			if p.Succs[0] == b {
				return c
			}
			return Not(c)
		}
		return tTrue
	}

	for _, b := range ci.order {
		type inEdge struct {
			cond Term
			st   *State
			pred *ssa.BasicBlock
		}
		var ins []inEdge
		if b == fn.Blocks[0] {
			ins = append(ins, inEdge{pc0, st0, nil})
		}
		for _, p := range b.Preds {
			if ci.backEdge[[2]int{p.Index, b.Index}] {
				continue
			}
			ppc, ok := pcOut[p]
			if !ok {
				continue
			}
			c := And(ppc, edgeCond(p, b))
			if c.S == "false" {
				continue
			}
			ins = append(ins, inEdge{c, stOut[p], p})
		}
		if len(ins) == 0 {
			continue
		}
		var conds []Term
		var mins []incoming
		for _, in := range ins {
			conds = append(conds, in.cond)
			mins = append(mins, incoming{in.cond, in.st})
		}
		pc := ex.sc.Name(fmt.Sprintf("pc.%s.b%d", smtIdent(fn.Name()), b.Index), Or(conds...))
		st := ex.mergeStates(mins)
		fr.curBlock = b
		fr.curState = st
		fr.blockPC = pc
		fr.dead = false

		li := ci.loops[b]
		// phis
		phiVal := func(phi *ssa.Phi, onlyForward bool) Val {
			var v Val
			first := true
			for i := len(ins) - 1; i >= 0; i-- {
				in := ins[i]
				var ev Val
				if in.pred == nil {
					continue
				}
				for k, p := range b.Preds {
					if p == in.pred {
						ev = ex.get(fr, phi.Edges[k])
						break
					}
				}
				if first {
					v = ev
					first = false
				} else {
					v = ex.mergeVal(in.cond, ev, v)
				}
			}
			return v
		}
		if li == nil {
			for _, in := range b.Instrs {
				phi, ok := in.(*ssa.Phi)
				if !ok {
					break
				}
				fr.regs[phi] = ex.nameVal(phi.Name(), phiVal(phi, true))
			}
		} else {
			ex.enterLoop(fr, li, b, st, pc, func(phi *ssa.Phi) Val { return phiVal(phi, true) })
		}

		// instructions
		for _, in := range b.Instrs {
			if _, ok := in.(*ssa.Phi); ok {
				continue
			}
			ex.instr(fr, st, in)
			if fr.dead {
				break
			}
		}
		if !fr.dead {
			pcOut[b] = fr.blockPC
			stOut[b] = st
			// back edges out of b
			for _, s := range b.Succs {
				if ci.backEdge[[2]int{b.Index, s.Index}] {
					ex.backEdge(fr, ci.loops[s], b, s, st, And(fr.blockPC, edgeCond(b, s)))
				}
			}
			// nobreak loops: a block that is dominated by the loop's body entry but
			// is not part of the loop is on a path that leaves an iteration early
			// (break, return, goto): it must be unreachable
			for _, lp := range ci.loops {
				if lp.spec == nil || !lp.spec.NoBreak || lp.blocks[b] {
					continue
				}
				var entry *ssa.BasicBlock
				for _, s := range lp.header.Succs {
					if lp.blocks[s] && s != lp.header {
						entry = s
					}
				}
				if entry == nil || !entry.Dominates(b) {
					continue
				}
				fromLoop := false
				for _, p := range b.Preds {
					if lp.blocks[p] {
						fromLoop = true
					}
				}
				if fromLoop {
					ex.oblige(fr, fmt.Sprintf("loop%d.nobreak", lp.ord), "early-exit", fr.blockPC, tFalse, b.Instrs[0].Pos())
				}
			}
			// ... and a `break` that jumps straight to the loop's ordinary exit
			// block: an edge that leaves the loop from a block of its BODY (not
			// from the header, where the loop condition is tested)
			for _, lp := range ci.loops {
				if lp.spec == nil || !lp.spec.NoBreak || !lp.blocks[b] || b == lp.header {
					continue
				}
				var entry *ssa.BasicBlock
				for _, s := range lp.header.Succs {
					if lp.blocks[s] && s != lp.header {
						entry = s
					}
				}
				if entry == nil || !(entry == b || entry.Dominates(b)) {
					continue
				}
				for _, s := range b.Succs {
					if lp.blocks[s] {
						continue
					}
					// only exits to the block the header itself exits to (others are
					// covered by the rule above)
					toCommonExit := false
					for _, hs := range lp.header.Succs {
						if hs == s {
							toCommonExit = true
						}
					}
					if toCommonExit {
						ex.oblige(fr, fmt.Sprintf("loop%d.nobreak", lp.ord), "break", And(fr.blockPC, edgeCond(b, s)), tFalse, b.Instrs[len(b.Instrs)-1].Pos())
					}
				}
			}
		}
	}
}

func (ex *Exec) nameVal(hint string, v Val) Val {
	if sv, ok := v.(SV); ok {
		return SV{ex.sc.Name(hint, sv.T)}
	}
	return v
}

// ---------------------------------------------------------------------------
// loops

type modSet struct {
	all   bool
	heap  map[string]bool
	cells map[*ssa.Alloc]bool
	alloc bool
}

func (ex *Exec) loopModSet(fr *Frame, li *loopInfo) *modSet {
	ms := &modSet{heap: map[string]bool{}, cells: map[*ssa.Alloc]bool{}}
	seen := map[*ssa.Function]bool{}
	var scanFn func(fn *ssa.Function, blocks map[*ssa.BasicBlock]bool, depth int)
	var addrKeys func(addr ssa.Value)
	addrKeys = func(addr ssa.Value) {
		switch a := addr.(type) {
		case *ssa.Alloc:
			if !a.Heap {
				ms.cells[a] = true
				return
			}
			elem := a.Type().(*types.Pointer).Elem()
			var ls []leafT
			structLeaves(elem, nil, "", &ls)
			for _, l := range ls {
				ms.heap[heapKeyFor(elem, l.name)] = true
			}
		case *ssa.FieldAddr:
			// find root
			path := []int{a.Field}
			x := a.X
			for {
				if fa, ok := x.(*ssa.FieldAddr); ok {
					path = append([]int{fa.Field}, path...)
					x = fa.X
					continue
				}
				break
			}
			if al, ok := x.(*ssa.Alloc); ok && !al.Heap {
				ms.cells[al] = true
				return
			}
			if g, ok := x.(*ssa.Global); ok {
				_ = g
				ms.all = true // conservative for globals-with-fields
				return
			}
			pt, ok := x.Type().Underlying().(*types.Pointer)
			if !ok {
				ms.all = true
				return
			}
			root := pt.Elem()
			t, name := typeAtPath(root, path)
			if t == nil {
				ms.all = true
				return
			}
			var ls []leafT
			structLeaves(t, nil, name, &ls)
			for _, l := range ls {
				ms.heap[heapKeyFor(root, l.name)] = true
			}
		case *ssa.IndexAddr:
			switch xt := a.X.Type().Underlying().(type) {
			case *types.Slice:
				addElemKeys(ms, xt.Elem())
			case *types.Pointer:
				if al, ok := a.X.(*ssa.Alloc); ok {
					ms.cells[al] = true
				} else {
					ms.all = true
				}
			default:
				ms.all = true
			}
		case *ssa.Global:
			gt := a.Type().(*types.Pointer).Elem()
			var ls []leafT
			structLeaves(gt, nil, "", &ls)
			for _, l := range ls {
				k := globalKey(a)
				if l.name != "" {
					k += "." + l.name
				}
				ms.heap[k] = true
			}
		default:
			// pointer value of unknown origin: by pointee type
			if pt, ok := addr.Type().Underlying().(*types.Pointer); ok {
				var ls []leafT
				structLeaves(pt.Elem(), nil, "", &ls)
				for _, l := range ls {
					ms.heap[heapKeyFor(pt.Elem(), l.name)] = true
				}
				return
			}
			ms.all = true
		}
	}
	scanFn = func(fn *ssa.Function, blocks map[*ssa.BasicBlock]bool, depth int) {
		for _, b := range fn.Blocks {
			if blocks != nil && !blocks[b] {
				continue
			}
			for _, in := range b.Instrs {
				switch x := in.(type) {
				case *ssa.Store:
					addrKeys(x.Addr)
				case *ssa.MapUpdate:
					mt := x.Map.Type().Underlying().(*types.Map)
					ms.heap[mapKey(mt)+".val"] = true
					ms.heap[mapKey(mt)+".has"] = true
				case *ssa.Alloc:
					if x.Heap {
						ms.alloc = true
						addrKeys(x)
					} else {
						ms.cells[x] = true
					}
				case *ssa.MakeSlice, *ssa.MakeMap, *ssa.MakeClosure, *ssa.MakeChan:
					ms.alloc = true
					if mk, ok := x.(*ssa.MakeSlice); ok {
						addElemKeys(ms, mk.Type().Underlying().(*types.Slice).Elem())
					}
				case *ssa.Send:
					// a send changes nothing in this goroutine's memory (sequential
					// reasoning: interference from other goroutines is not modelled)
				case *ssa.Go, *ssa.Select:
					ms.all = true
				case ssa.CallInstruction:
					ex.scanCallMods(ms, x, depth, seen, scanFn)
				}
			}
		}
	}
	scanFn(fr.fn, li.blocks, 0)
	return ms
}

func (ex *Exec) scanCallMods(ms *modSet, call ssa.CallInstruction, depth int, seen map[*ssa.Function]bool,
	scanFn func(fn *ssa.Function, blocks map[*ssa.BasicBlock]bool, depth int)) {
	c := call.Common()
	if c.IsInvoke() {
		key := ifaceMethodKey(c)
		if ic, ok := ex.cs.IfaceContracts[key]; ok && ic.AssignsSet {
			ex.addAssigns(ms, ic)
			return
		}
		ms.all = true
		return
	}
	switch v := c.Value.(type) {
	case *ssa.Builtin:
		switch v.Name() {
		case "append":
			ms.alloc = true
			if st, ok := c.Args[0].Type().Underlying().(*types.Slice); ok {
				addElemKeys(ms, st.Elem())
			}
		case "copy":
			if st, ok := c.Args[0].Type().Underlying().(*types.Slice); ok {
				addElemKeys(ms, st.Elem())
			}
		case "delete":
			mt := c.Args[0].Type().Underlying().(*types.Map)
			ms.heap[mapKey(mt)+".val"] = true
			ms.heap[mapKey(mt)+".has"] = true
		}
		return
	case *ssa.Function:
		ex.scanCalleeMods(ms, v, depth, seen, scanFn)
		return
	case *ssa.MakeClosure:
		ex.scanCalleeMods(ms, v.Fn.(*ssa.Function), depth, seen, scanFn)
		return
	}
	ms.all = true
}

func (ex *Exec) scanCalleeMods(ms *modSet, fn *ssa.Function, depth int, seen map[*ssa.Function]bool,
	scanFn func(fn *ssa.Function, blocks map[*ssa.BasicBlock]bool, depth int)) {
	key := funcKey(fn)
	if c := ex.lookupContract(key, nil); c != nil {
		if c.AssignsSet {
			ex.addAssigns(ms, c)
			return
		}
		if c.Extern {
			return
		}
		if !c.Inline {
			ms.all = true
			return
		}
	}
	if !inRepo(fn) {
		if !pureExternal(fn) {
			ms.all = true
		}
		return
	}
	if len(fn.Blocks) == 0 || depth > ex.maxInline {
		ms.all = true
		return
	}
	if seen[fn] {
		return
	}
	seen[fn] = true
	scanFn(fn, nil, depth+1)
}

func (ex *Exec) addAssigns(ms *modSet, c *Contract) {
	for _, a := range c.Assigns {
		switch {
		case a == "nothing":
		case a == "alloc":
			ms.alloc = true
		case a == "everything":
			ms.all = true
		default:
			ms.heap[a] = true
		}
	}
	for k := range c.AssignRows {
		ms.heap[k] = true
		ms.alloc = true
	}
}

func (ex *Exec) enterLoop(fr *Frame, li *loopInfo, b *ssa.BasicBlock, st *State, pc Term, phiIn func(*ssa.Phi) Val) {
	if len(ex.invAllocs) > 0 {
		ex.checkInvAllocs(fr, st, pc, 0, fmt.Sprintf("loop%d.entry", li.ord))
	}
	li.invMark = len(ex.invAllocs)
	// 1. initial phi values; invariant holds on entry
	initPhis := map[*ssa.Phi]Val{}
	for _, in := range b.Instrs {
		phi, ok := in.(*ssa.Phi)
		if !ok {
			break
		}
		initPhis[phi] = phiIn(phi)
	}
	if li.spec != nil {
		for phi, v := range initPhis {
			fr.regs[phi] = v
		}
		for i, inv := range li.spec.Invariants {
			env := ex.loopEnv(fr, st)
			env.outer = outerOf(li)
			g := ex.evalBool(inv, env)
			ex.oblige(fr, fmt.Sprintf("loop%d.init", li.ord), clauseName(inv, i), pc, g, b.Instrs[0].Pos())
		}
	}
	// 2. havoc
	ms := ex.loopModSet(fr, li)
	for phi, v := range initPhis {
		fr.regs[phi] = ex.freshLike(v, phi.Type(), phi.Comment)
		if phi.Comment == "rangeindex" {
			// the hidden index of a range-over-slice loop: the SSA builder
			// starts it at -1 and only ever adds 1 (built-in invariant).
			if sv, ok := fr.regs[phi].(SV); ok && sv.T.Sort == SInt {
				ex.sc.Assert(Implies(pc, app(SBool, ">=", sv.T, IntLit(-1))))
			}
		}
	}
	if ms.all {
		ex.havocAll(st, "instr.go:411")
	} else {
		var ks []string
		for k := range ms.heap {
			ks = append(ks, k)
		}
		sort.Strings(ks)
		if len(ks) > 0 || ms.alloc {
			if ks == nil {
				ks = []string{}
			}
			ex.havocHeap(st, ks)
		}
	}
	for cell, v := range st.cells {
		for al := range ms.cells {
			if c, ok := fr.regs[al].(CellPtr); ok && c.C == cell {
				st.cells[cell] = ex.freshLike(v, cell.Typ, cell.Name)
			}
		}
	}
	for g, v := range st.ghost {
		// ghost variables assigned by oncall rules inside the loop are havocked
		if ex.ghostAssignedIn(li, g) {
			st.ghost[g] = ex.freshLike(v, nil, "ghost."+g)
		}
	}
	// 3. assume invariant
	if li.spec != nil {
		for _, inv := range li.spec.Invariants {
			env := ex.loopEnv(fr, st)
			env.outer = outerOf(li)
			g := ex.evalBool(inv, env)
			ex.sc.Assert(Implies(pc, g))
		}
		if li.spec.Decreases != nil {
			env := ex.loopEnv(fr, st)
			m := ex.term(ex.eval(li.spec.Decreases.Expr, env).V, SInt)
			li.measure0 = ex.sc.Name("measure", m)
			li.hasMeasure = true
		}
	} else if fr.isTop {
		ex.unsup(fmt.Sprintf("loop %d of %s has no invariant (havoc only)", li.ord, fr.label))
	}
	li.headSt = st.clone()
}

func (ex *Exec) ghostAssignedIn(li *loopInfo, g string) bool {
	if ex.contract == nil {
		return false
	}
	for _, oc := range ex.contract.OnCalls {
		assigns := false
		for _, a := range oc.Assigns {
			if a.Name == g {
				assigns = true
			}
		}
		if !assigns {
			continue
		}
		// only rules whose callee is called inside the loop can change g there
		for b := range li.blocks {
			for _, in := range b.Instrs {
				ci, ok := in.(ssa.CallInstruction)
				if !ok {
					continue
				}
				callee := ci.Common().StaticCallee()
				if callee == nil {
					continue
				}
				key := funcKey(callee)
				short := key
				if i := strings.Index(key, "."); i >= 0 {
					short = key[i+1:]
				}
				if !oncallMatches(oc, key, short) {
					continue
				}
				if oc.Ord != 0 && ex.callSiteOrd(b.Parent(), ci) != oc.Ord {
					continue
				}
				return true
			}
		}
	}
	return false
}

func (ex *Exec) freshLike(v Val, t types.Type, hint string) Val {
	if t != nil {
		if _, isOp := v.(Opaque); !isOp {
			switch v.(type) {
			case CellPtr, GlobalPtr, FuncV, CellSlice:
				return v // static shapes stay
			}
		}
		nv := ex.freshVal(t, hint)
		if _, bad := nv.(Opaque); !bad {
			return nv
		}
	}
	switch x := v.(type) {
	case SV:
		return SV{ex.sc.Fresh(hint, x.T.Sort)}
	case StructV:
		fs := make([]Val, len(x.F))
		for i := range fs {
			fs[i] = ex.freshLike(x.F[i], nil, hint)
		}
		return StructV{Typ: x.Typ, F: fs}
	case TupleV:
		fs := make([]Val, len(x.F))
		for i := range fs {
			fs[i] = ex.freshLike(x.F[i], nil, hint)
		}
		return TupleV{F: fs}
	case ArrV:
		es := make([]Val, len(x.Elems))
		for i := range es {
			es[i] = ex.freshLike(x.Elems[i], nil, hint)
		}
		return ArrV{Elem: x.Elem, Elems: es}
	case IfaceV:
		return SV{ex.sc.Fresh(hint, SIface)}
	case HeapPtr:
		return HeapPtr{Base: ex.sc.Fresh(hint, SInt), Root: x.Root, Path: x.Path}
	}
	return v
}

func (ex *Exec) backEdge(fr *Frame, li *loopInfo, from, header *ssa.BasicBlock, st *State, pc Term) {
	if li != nil && len(ex.invAllocs) > li.invMark {
		savedPC := fr.blockPC
		fr.blockPC = pc
		ex.checkInvAllocs(fr, st, pc, li.invMark, fmt.Sprintf("loop%d.back", li.ord))
		fr.blockPC = savedPC
	}
	if li == nil || li.spec == nil {
		return
	}
	// bind phis to the values flowing along this edge
	saved := map[*ssa.Phi]Val{}
	for _, in := range header.Instrs {
		phi, ok := in.(*ssa.Phi)
		if !ok {
			break
		}
		saved[phi] = fr.regs[phi]
		for k, p := range header.Preds {
			if p == from {
				fr.regs[phi] = ex.get(fr, phi.Edges[k])
			}
		}
	}
	// at a back edge the current value of a loop-carried source variable is the
	// value flowing into the header phi, whatever other phi of that name
	// dominates the edge
	edgeEnv := func() *Env {
		env := ex.loopEnv(fr, st)
		for phi := range saved {
			if phi.Comment != "" {
				env.vars[phi.Comment] = TV{fr.regs[phi], phi.Type()}
			}
		}
		return env
	}
	savedPC := fr.blockPC
	fr.blockPC = pc
	// per-iteration postconditions first: once obliged they may be used by the
	// preservation proofs of the invariants
	for i, it := range li.spec.Iters {
		env := edgeEnv()
		env.old = li.headSt
		env.oldVars = map[string]TV{}
		for phi, hv := range saved {
			if phi.Comment != "" && hv != nil {
				env.oldVars[phi.Comment] = TV{hv, phi.Type()}
			}
		}
		g := ex.evalBool(it, env)
		ex.oblige(fr, fmt.Sprintf("loop%d.iter", li.ord), clauseName(it, i), pc, g, from.Instrs[len(from.Instrs)-1].Pos())
	}
	for i, inv := range li.spec.Invariants {
		env := edgeEnv()
		env.outer = outerOf(li)
		g := ex.evalBool(inv, env)
		ex.oblige(fr, fmt.Sprintf("loop%d.preserve", li.ord), clauseName(inv, i), pc, g, from.Instrs[len(from.Instrs)-1].Pos())
	}
	if li.hasMeasure {
		env := edgeEnv()
		m := ex.term(ex.eval(li.spec.Decreases.Expr, env).V, SInt)
		ex.oblige(fr, fmt.Sprintf("loop%d.decreases", li.ord), "", pc,
			And(app(SBool, "<", m, li.measure0), app(SBool, ">=", li.measure0, IntLit(0))), from.Instrs[len(from.Instrs)-1].Pos())
	}
	fr.blockPC = savedPC
	for phi, v := range saved {
		fr.regs[phi] = v
	}
}

func clauseName(c Clause, i int) string {
	if c.Label != "" {
		return c.Label
	}
	return fmt.Sprintf("%d", i+1)
}

// ---------------------------------------------------------------------------
// values

func (ex *Exec) get(fr *Frame, v ssa.Value) Val {
	switch x := v.(type) {
	case *ssa.Const:
		return ex.constVal(x)
	case *ssa.Global:
		return GlobalPtr{G: x}
	case *ssa.Function:
		return FuncV{Fn: x}
	case *ssa.Builtin:
		return Opaque{"builtin value"}
	}
	if r, ok := fr.regs[v]; ok {
		return r
	}
	ex.unsup(fmt.Sprintf("undefined SSA value %s in %s", v.Name(), fr.label))
	nv := ex.freshVal(v.Type(), v.Name())
	fr.regs[v] = nv
	return nv
}

func ratTerm(r *big.Rat) Term {
	neg := r.Sign() < 0
	a := new(big.Rat).Abs(r)
	var s string
	if a.IsInt() {
		s = a.Num().String() + ".0"
	} else {
		s = "(/ " + a.Num().String() + ".0 " + a.Denom().String() + ".0)"
	}
	if neg {
		s = "(- " + s + ")"
	}
	return T(SReal, s)
}

func (ex *Exec) constVal(c *ssa.Const) Val {
	t := c.Type()
	if c.Value == nil {
		return ex.zeroVal(t)
	}
	s, ok := scalarSort(t)
	if !ok {
		return ex.zeroVal(t)
	}
	switch s {
	case SBool:
		return SV{BoolLit(constant.BoolVal(c.Value))}
	case SInt:
		if iv := constant.ToInt(c.Value); iv.Kind() == constant.Int {
			return SV{BigIntLit(iv.ExactString())}
		}
	case SReal:
		fv := constant.ToFloat(c.Value)
		if fv.Kind() == constant.Float || fv.Kind() == constant.Int {
			r, ok := new(big.Rat).SetString(fv.ExactString())
			if ok {
				return SV{ratTerm(r)}
			}
		}
	case SStr:
		return SV{ex.strLit(constant.StringVal(c.Value))}
	}
	ex.unsup("constant " + c.String())
	return ex.freshVal(t, "const")
}

// ---------------------------------------------------------------------------
// instructions

func (ex *Exec) instr(fr *Frame, st *State, in ssa.Instruction) {
	pc := fr.blockPC
	switch x := in.(type) {
	case *ssa.DebugRef:
		if id, ok := x.Expr.(interface{ String() string }); ok {
			_ = id
		}
		if fr.debugVals != nil {
			if obj := x.Object(); obj != nil && obj.Pkg() != nil && obj.Parent() == obj.Pkg().Scope() {
				// a package-level name, not a local
			} else if idn := identName(x); idn != "" {
				fr.debugVals[idn] = x.X
			}
		}
	case *ssa.Alloc:
		elem := x.Type().(*types.Pointer).Elem()
		_, isArr := elem.Underlying().(*types.Array)
		if !x.Heap || (isArr && cellArrayOK(x)) {
			c := ex.newCell(elem, x.Comment)
			st.cells[c] = ex.zeroVal(elem)
			fr.regs[x] = CellPtr{C: c}
			return
		}
		r := ex.newRef(st, x.Comment)
		fr.regs[x] = SV{r}
		ex.nilChecked[fr.label+r.S] = true
		ex.sc.Assert(app(SBool, ">", r, IntLit(0)))
		// zero-initialise
		ex.storeHeapTyped(st, r, elem, elem, "", ex.zeroVal(elem))
		if len(ex.cs.FieldInvs) > 0 {
			var ls []leafT
			structLeaves(elem, nil, "", &ls)
			for _, l := range ls {
				if k := heapKeyFor(elem, l.name); ex.cs.fieldInv(k) != nil {
					ex.invAllocs = append(ex.invAllocs, invAlloc{key: k, ref: r, pc: fr.blockPC, pos: x.Pos()})
				}
			}
		}
	case *ssa.Store:
		ex.store(fr, st, ex.get(fr, x.Addr), ex.get(fr, x.Val), x.Val.Type(), x.Pos())
	case *ssa.UnOp:
		fr.regs[x] = ex.unop(fr, st, x)
	case *ssa.BinOp:
		fr.regs[x] = ex.nameVal(x.Name(), ex.binop(fr, x.Op, ex.get(fr, x.X), ex.get(fr, x.Y), x.X.Type(), x.Pos()))
	case *ssa.FieldAddr:
		fr.regs[x] = ex.fieldAddr(fr, ex.get(fr, x.X), x)
	case *ssa.Field:
		v := ex.get(fr, x.X)
		if sv, ok := v.(StructV); ok && x.Field < len(sv.F) {
			fr.regs[x] = sv.F[x.Field]
		} else {
			ex.unsup("field of non-struct value")
			fr.regs[x] = ex.freshVal(x.Type(), x.Name())
		}
	case *ssa.IndexAddr:
		fr.regs[x] = ex.indexAddr(fr, st, x)
	case *ssa.Index:
		fr.regs[x] = ex.index(fr, st, x)
	case *ssa.Lookup:
		fr.regs[x] = ex.lookup(fr, st, x)
	case *ssa.Slice:
		fr.regs[x] = ex.slice(fr, st, x)
	case *ssa.MakeSlice:
		fr.regs[x] = ex.makeSlice(fr, st, x)
	case *ssa.MakeMap:
		r := ex.newRef(st, "map")
		ex.sc.Assert(app(SBool, ">", r, IntLit(0)))
		mt := x.Type().Underlying().(*types.Map)
		ks, _ := scalarSort(mt.Key())
		if ks != "" {
			key := mapKey(mt) + ".has"
			has := ex.heapRead(st, key, ArraySort(SInt, ArraySort(ks, SBool)))
			ex.heapSet(st, key, Store(has, r, T(ArraySort(ks, SBool), fmt.Sprintf("((as const %s) false)", ArraySort(ks, SBool)))))
		}
		fr.regs[x] = SV{r}
	case *ssa.MapUpdate:
		ex.mapUpdate(fr, st, x)
	case *ssa.MakeInterface:
		fr.regs[x] = IfaceV{Dyn: x.X.Type(), Payload: ex.get(fr, x.X)}
	case *ssa.MakeClosure:
		fv := FuncV{Fn: x.Fn.(*ssa.Function)}
		for _, b := range x.Bindings {
			fv.Free = append(fv.Free, ex.get(fr, b))
		}
		fr.regs[x] = fv
	case *ssa.MakeChan:
		r := ex.newRef(st, "chan")
		fr.regs[x] = SV{r}
	case *ssa.ChangeType:
		v := ex.get(fr, x.X)
		if sv, ok := v.(StructV); ok {
			sv.Typ = x.Type()
			v = sv
		}
		fr.regs[x] = v
	case *ssa.ChangeInterface:
		fr.regs[x] = ex.get(fr, x.X)
	case *ssa.Convert:
		fr.regs[x] = ex.convert(fr, x)
	case *ssa.TypeAssert:
		fr.regs[x] = ex.typeAssert(fr, st, x)
	case *ssa.Extract:
		v := ex.get(fr, x.Tuple)
		if tv, ok := v.(TupleV); ok && x.Index < len(tv.F) {
			fr.regs[x] = tv.F[x.Index]
		} else {
			fr.regs[x] = ex.freshVal(x.Type(), x.Name())
		}
	case *ssa.Call:
		fr.regs[x] = ex.call(fr, st, x)
	case *ssa.Defer:
		d := deferred{flag: tTrue, call: x.Common()}
		st.defers = append(st.defers, d)
		// evaluate callee and args now
		cm := x.Common()
		if !cm.IsInvoke() {
			st.defers[len(st.defers)-1].fn = ex.get(fr, cm.Value)
		} else {
			st.defers[len(st.defers)-1].fn = ex.get(fr, cm.Value)
		}
		for _, a := range cm.Args {
			st.defers[len(st.defers)-1].args = append(st.defers[len(st.defers)-1].args, ex.get(fr, a))
		}
	case *ssa.RunDefers:
		ex.runDefers(fr, st)
	case *ssa.Go:
		// starting a goroutine: contracts observe it as the event `oncall go`
		// (argN = the arguments handed to the new goroutine); what the
		// goroutine does to memory is not followed (total havoc)
		if ex.contract != nil && fr.isTop && len(ex.contract.OnCalls) > 0 {
			cm := x.Common()
			var args []Val
			var pt []types.Type
			for _, a := range cm.Args {
				args = append(args, ex.get(fr, a))
				pt = append(pt, a.Type())
			}
			ex.fireOnCallTyped(fr, st, "go", args, pt, nil, nil, nil, true)
			ex.fireOnCallTyped(fr, st, "go", args, pt, nil, nil, nil, false)
		}
		ex.unsup("go statement in " + fr.label)
		ex.havocAll(st, "instr.go:742")
	case *ssa.Send:
		// a send has no effect on this function's memory; contracts observe it
		// as the event `oncall send` (arg0 = channel, arg1 = value sent)
		if ex.contract != nil && fr.isTop && len(ex.contract.OnCalls) > 0 {
			args := []Val{ex.get(fr, x.Chan), ex.get(fr, x.X)}
			pt := []types.Type{x.Chan.Type(), x.X.Type()}
			ex.fireOnCallTyped(fr, st, "send", args, pt, nil, nil, nil, true)
			ex.fireOnCallTyped(fr, st, "send", args, pt, nil, nil, nil, false)
		} else {
			ex.unsup("channel send in " + fr.label)
		}
	case *ssa.Select:
		ex.unsup("select in " + fr.label)
		fr.regs[x] = ex.freshVal(x.Type(), x.Name())
		ex.havocAll(st, "instr.go:748")
	case *ssa.Range:
		fr.regs[x] = ex.get(fr, x.X) // iterator = the collection itself
	case *ssa.Next:
		fr.regs[x] = ex.next(fr, st, x)
	case *ssa.Return:
		var vals []Val
		for _, r := range x.Results {
			vals = append(vals, ex.get(fr, r))
		}
		fr.rets = append(fr.rets, retInfo{pc: pc, vals: vals, st: st.clone()})
		fr.dead = true
	case *ssa.Panic:
		if ex.checkPanics {
			msg := "panic"
			if mi, ok := x.X.(*ssa.MakeInterface); ok {
				if c, ok := mi.X.(*ssa.Const); ok && c.Value != nil && c.Value.Kind() == constant.String {
					msg = constant.StringVal(c.Value)
				}
			}
			if mi, ok := x.X.(*ssa.MakeInterface); ok {
				if call, ok := mi.X.(*ssa.Call); ok {
					if f, ok := call.Call.Value.(*ssa.Function); ok && f.String() == "fmt.Sprintf" && len(call.Call.Args) > 0 {
						if c, ok := call.Call.Args[0].(*ssa.Const); ok && c.Value != nil && c.Value.Kind() == constant.String {
							msg = constant.StringVal(c.Value)
						}
					}
				}
			}
			if len(msg) > 50 {
				msg = msg[:50]
			}
			tolerated := false
			var aps []AllowPanic
			if ex.contract != nil {
				aps = append(aps, ex.contract.AllowPanics...)
			}
			// documented panics of inlined callees count when their contract is
			// for the property being checked
			for _, sfn := range ex.stack {
				if c := ex.cs.Funcs[funcKey(sfn)]; c != nil && c != ex.contract && (currentProp == "" || hasProp(c.Props, currentProp)) {
					for _, ap := range c.AllowPanics {
						if ap.When == nil {
							aps = append(aps, ap)
						}
					}
				}
			}
			if len(aps) > 0 {
				for _, ap := range aps {
					if strings.Contains(msg, ap.Text) {
						tolerated = true
						// the tolerated panic is itself conditional: its reach condition must imply the stated condition
						if ap.When != nil {
							env := ex.loopEnv(fr, st)
							g := ex.evalBool(*ap.When, env)
							ex.oblige(fr, "tolerated-panic-condition", msg, pc, g, x.Pos())
						}
					}
				}
			}
			if !tolerated {
				ex.oblige(fr, "panic", msg, pc, tFalse, x.Pos())
			}
		}
		fr.dead = true
	case *ssa.If, *ssa.Jump:
		// handled by edge conditions
	case *ssa.Phi:
	case *ssa.SliceToArrayPointer, *ssa.MultiConvert:
		ex.unsup(fmt.Sprintf("%T", in))
		if v, ok := in.(ssa.Value); ok {
			fr.regs[v] = ex.freshVal(v.Type(), v.Name())
		}
	default:
		ex.unsup(fmt.Sprintf("instruction %T", in))
		if v, ok := in.(ssa.Value); ok {
			fr.regs[v] = ex.freshVal(v.Type(), v.Name())
		}
	}
}

func identName(d *ssa.DebugRef) string {
	if id, ok := d.Expr.(interface{ End() token.Pos }); ok {
		_ = id
	}
	if d.Expr == nil {
		return ""
	}
	type namer interface{ String() string }
	if n, ok := d.Expr.(namer); ok {
		s := n.String()
		if !strings.ContainsAny(s, " .([") {
			return s
		}
	}
	return ""
}

// cellArrayOK: a heap-flagged array alloc may be a cell if only used through
// IndexAddr with constant indices and Slice (the varargs pattern).
func cellArrayOK(a *ssa.Alloc) bool {
	at, ok := a.Type().(*types.Pointer).Elem().Underlying().(*types.Array)
	if !ok || at.Len() > 64 {
		return false
	}
	for _, r := range *a.Referrers() {
		switch u := r.(type) {
		case *ssa.IndexAddr:
			if _, ok := u.Index.(*ssa.Const); !ok {
				return false
			}
			for _, r2 := range *u.Referrers() {
				if s, ok := r2.(*ssa.Store); !ok || s.Addr != u {
					return false
				}
			}
		case *ssa.Slice:
			if u.Low != nil || u.High != nil || u.Max != nil {
				return false
			}
		case *ssa.DebugRef:
		default:
			return false
		}
	}
	return true
}

func (ex *Exec) fieldAddr(fr *Frame, p Val, x *ssa.FieldAddr) Val {
	switch v := p.(type) {
	case CellPtr:
		return CellPtr{C: v.C, Path: append(append([]int{}, v.Path...), x.Field)}
	case HeapPtr:
		return HeapPtr{Base: v.Base, Root: v.Root, Path: append(append([]int{}, v.Path...), x.Field)}
	case GlobalPtr:
		return GlobalPtr{G: v.G, Path: append(append([]int{}, v.Path...), x.Field)}
	case ElemPtr:
		return ElemPtr{Arr: v.Arr, Idx: v.Idx, Elem: v.Elem, Path: append(append([]int{}, v.Path...), x.Field)}
	case SV:
		root := x.X.Type().Underlying().(*types.Pointer).Elem()
		ex.nilCheck(fr, v.T, x.Pos(), "field")
		return HeapPtr{Base: v.T, Root: root, Path: []int{x.Field}}
	}
	ex.unsup(fmt.Sprintf("FieldAddr on %T", p))
	return Opaque{"fieldaddr"}
}

func (ex *Exec) unop(fr *Frame, st *State, x *ssa.UnOp) Val {
	v := ex.get(fr, x.X)
	switch x.Op {
	case token.MUL:
		return ex.nameValT(x, ex.load(fr, st, v, x.Type(), x.Pos()))
	case token.NOT:
		return SV{Not(ex.boolTerm(v))}
	case token.SUB:
		sv := ex.term(v, "")
		if sv.Sort == SReal {
			return SV{app(SReal, "-", sv)}
		}
		return SV{app(SInt, "-", sv)}
	case token.ARROW:
		// a receive yields some value of the element type; this goroutine's
		// memory is unchanged (sequential reasoning, as for sends)
		ex.assumedUsed["channel receive in "+fr.label+": any value, no interference"] = true
		return ex.freshVal(x.Type(), x.Name())
	case token.XOR:
		return SV{app(SInt, "bitnot_", ex.term(v, SInt))}
	}
	ex.unsup("unop " + x.Op.String())
	return ex.freshVal(x.Type(), x.Name())
}

func (ex *Exec) nameValT(x ssa.Value, v Val) Val { return v }

func (ex *Exec) binop(fr *Frame, op token.Token, a, b Val, t types.Type, pos token.Pos) Val {
	// struct / aggregate equality
	if sa, ok := a.(StructV); ok {
		if sb, ok := b.(StructV); ok && (op == token.EQL || op == token.NEQ) {
			var cs []Term
			for i := range sa.F {
				cs = append(cs, ex.boolTerm(ex.binop(fr, token.EQL, sa.F[i], sb.F[i], nil, pos)))
			}
			r := And(cs...)
			if op == token.NEQ {
				r = Not(r)
			}
			return SV{r}
		}
	}
	// pointer comparisons with static shapes
	if op == token.EQL || op == token.NEQ {
		_, ac := a.(CellPtr)
		_, bc := b.(CellPtr)
		if ac || bc {
			eq := tFalse
			if ac && bc && a.(CellPtr).C == b.(CellPtr).C && pathEq(a.(CellPtr).Path, b.(CellPtr).Path) {
				eq = tTrue
			}
			if op == token.NEQ {
				eq = Not(eq)
			}
			return SV{eq}
		}
		if fa, ok := a.(FuncV); ok {
			_ = fa
			// func values only compare with nil
			r := tFalse
			if op == token.NEQ {
				r = tTrue
			}
			return SV{r}
		}
	}
	var want Sort
	if sa, ok := a.(SV); ok {
		want = sa.T.Sort
	} else if sb, ok := b.(SV); ok {
		want = sb.T.Sort
	}
	if _, ok := a.(IfaceV); ok {
		want = SIface
	}
	if _, ok := b.(IfaceV); ok {
		want = SIface
	}
	x := ex.term(a, want)
	y := ex.term(b, want)
	if x.Sort != y.Sort {
		if x.Sort == SReal || y.Sort == SReal {
			x, y = ToReal(x), ToReal(y)
		}
	}
	switch op {
	case token.EQL:
		return SV{Eq(x, y)}
	case token.NEQ:
		return SV{Not(Eq(x, y))}
	}
	switch x.Sort {
	case SInt:
		switch op {
		case token.ADD:
			return SV{app(SInt, "+", x, y)}
		case token.SUB:
			return SV{app(SInt, "-", x, y)}
		case token.MUL:
			return SV{app(SInt, "*", x, y)}
		case token.QUO:
			if ex.checkPanics {
				ex.oblige(fr, "div0", ex.ld.exprAt(pos, "binop"), fr.blockPC, Not(Eq(y, IntLit(0))), pos)
			}
			return SV{goDiv(x, y)}
		case token.REM:
			if ex.checkPanics {
				ex.oblige(fr, "div0", ex.ld.exprAt(pos, "binop"), fr.blockPC, Not(Eq(y, IntLit(0))), pos)
			}
			return SV{app(SInt, "-", x, app(SInt, "*", y, goDiv(x, y)))}
		case token.LSS:
			return SV{app(SBool, "<", x, y)}
		case token.LEQ:
			return SV{app(SBool, "<=", x, y)}
		case token.GTR:
			return SV{app(SBool, ">", x, y)}
		case token.GEQ:
			return SV{app(SBool, ">=", x, y)}
		case token.AND:
			return SV{app(SInt, "bitand_", x, y)}
		case token.OR:
			return SV{app(SInt, "bitor_", x, y)}
		case token.XOR:
			return SV{app(SInt, "bitxor_", x, y)}
		case token.SHL:
			return SV{app(SInt, "shl_", x, y)}
		case token.SHR:
			return SV{app(SInt, "shr_", x, y)}
		case token.AND_NOT:
			return SV{app(SInt, "bitandnot_", x, y)}
		}
	case SReal:
		switch op {
		case token.ADD:
			return SV{app(SReal, "+", x, y)}
		case token.SUB:
			return SV{app(SReal, "-", x, y)}
		case token.MUL:
			return SV{app(SReal, "*", x, y)}
		case token.QUO:
			return SV{app(SReal, "/", x, y)}
		case token.LSS:
			return SV{app(SBool, "<", x, y)}
		case token.LEQ:
			return SV{app(SBool, "<=", x, y)}
		case token.GTR:
			return SV{app(SBool, ">", x, y)}
		case token.GEQ:
			return SV{app(SBool, ">=", x, y)}
		}
	case SStr:
		switch op {
		case token.ADD:
			if la, ok := ex.litValue(x); ok {
				if lb, ok := ex.litValue(y); ok {
					return SV{ex.strLit(la + lb)}
				}
			}
			return SV{ex.strCat(x, y)}
		case token.LSS:
			return SV{app(SBool, "str.lt_", x, y)}
		case token.GTR:
			return SV{app(SBool, "str.lt_", y, x)}
		case token.LEQ:
			return SV{Not(app(SBool, "str.lt_", y, x))}
		case token.GEQ:
			return SV{Not(app(SBool, "str.lt_", x, y))}
		}
	case SBool:
		switch op {
		case token.AND, token.LAND:
			return SV{And(x, y)}
		case token.OR, token.LOR:
			return SV{Or(x, y)}
		}
	}
	ex.unsup(fmt.Sprintf("binop %s on %s", op, x.Sort))
	if t != nil {
		return ex.freshVal(t, "binop")
	}
	return SV{ex.sc.Fresh("binop", x.Sort)}
}

// goDiv: Go integer division truncates toward zero; SMT div is floor for
// positive divisors (euclidean in general).
func goDiv(x, y Term) Term {
	q := app(SInt, "div", x, y)
	// truncated = ite(x >= 0 || x mod y == 0, euclid-adjusted...)
	// for y > 0: trunc = ite(x>=0, div(x,y), -div(-x,y)); for y < 0: trunc = ite(x>=0, -div(x,-y), div(-x,-y))
	nx := app(SInt, "-", x)
	ny := app(SInt, "-", y)
	pos := Ite(app(SBool, ">=", x, IntLit(0)), q, app(SInt, "-", app(SInt, "div", nx, y)))
	neg := Ite(app(SBool, ">=", x, IntLit(0)), app(SInt, "-", app(SInt, "div", x, ny)), app(SInt, "div", nx, ny))
	if _, err := fmt.Sscanf(y.S, "%d", new(int64)); err == nil && !strings.HasPrefix(y.S, "(") {
		return pos
	}
	return Ite(app(SBool, ">", y, IntLit(0)), pos, neg)
}

func (ex *Exec) convert(fr *Frame, x *ssa.Convert) Val {
	v := ex.get(fr, x.X)
	from, _ := scalarSort(x.X.Type())
	to, _ := scalarSort(x.Type())
	switch {
	case from == SInt && to == SInt:
		t := ex.term(v, SInt)
		// narrowing to an unsigned byte wraps
		if b, ok := x.Type().Underlying().(*types.Basic); ok && b.Kind() == types.Uint8 {
			if fb, ok := x.X.Type().Underlying().(*types.Basic); !ok || fb.Kind() != types.Uint8 {
				return SV{app(SInt, "mod", t, IntLit(256))}
			}
		}
		return SV{t}
	case from == SInt && to == SReal:
		return SV{ToReal(ex.term(v, SInt))}
	case from == SReal && to == SInt:
		t := ex.term(v, SReal)
		return SV{Ite(app(SBool, ">=", t, T(SReal, "0.0")), app(SInt, "to_int", t), app(SInt, "-", app(SInt, "to_int", app(SReal, "-", t))))}
	case from == SReal && to == SReal:
		return SV{ex.term(v, SReal)}
	case from == SStr && to == SStr:
		return v
	case from == SInt && to == SStr:
		return SV{app(SStr, "str.fromrune_", ex.term(v, SInt))}
	case from == SSlice && to == SStr:
		ex.sc.DeclareFun("str.frombytes_", []Sort{SSlice, SInt}, SStr)
		return SV{ex.sc.Fresh("strconv", SStr)}
	case from == SStr && to == SSlice:
		s := ex.sc.Fresh("bytes", SSlice)
		ex.sc.Assert(wfSlice(s))
		ex.sc.Assert(Eq(app(SInt, "sl.len", s), app(SInt, "str.len_", ex.term(v, SStr))))
		return SV{s}
	}
	if from == to && from != "" {
		return v
	}
	ex.unsup(fmt.Sprintf("convert %s -> %s", x.X.Type(), x.Type()))
	return ex.freshVal(x.Type(), x.Name())
}

// implementers returns the tags of all known concrete types implementing iface.
func (ex *Exec) implementerTags(iface *types.Interface) []int {
	var tags []int
	for _, p := range ex.ld.Pkgs {
		sc := p.Types.Scope()
		for _, n := range sc.Names() {
			tn, ok := sc.Lookup(n).(*types.TypeName)
			if !ok {
				continue
			}
			t := tn.Type()
			if _, isI := t.Underlying().(*types.Interface); isI {
				continue
			}
			if types.Implements(t, iface) {
				tags = append(tags, ex.typeTag(t))
			}
			if pt := types.NewPointer(t); types.Implements(pt, iface) {
				tags = append(tags, ex.typeTag(pt))
			}
		}
	}
	return tags
}

func (ex *Exec) typeAssert(fr *Frame, st *State, x *ssa.TypeAssert) Val {
	v := ex.get(fr, x.X)
	var ok Term
	var res Val
	_, toIface := x.AssertedType.Underlying().(*types.Interface)
	switch iv := v.(type) {
	case IfaceV:
		if toIface {
			ok = BoolLit(types.Implements(iv.Dyn, x.AssertedType.Underlying().(*types.Interface)))
			res = iv
		} else {
			ok = BoolLit(types.Identical(iv.Dyn, x.AssertedType))
			if ok.S == "true" {
				res = iv.Payload
			} else {
				res = ex.zeroVal(x.AssertedType)
			}
		}
	default:
		t := ex.term(v, SIface)
		tag := app(SInt, "if.tag", t)
		if toIface {
			it := x.AssertedType.Underlying().(*types.Interface)
			if it.NumMethods() == 0 {
				ok = Not(Eq(tag, IntLit(0)))
			} else {
				var cs []Term
				for _, tg := range ex.implementerTags(it) {
					cs = append(cs, Eq(tag, IntLit(int64(tg))))
				}
				// unknown external implementers: not representable -> only a lower bound;
				// treat as exact for repo interfaces, unknown otherwise.
				if isRepoType(x.AssertedType) {
					ok = Or(cs...)
				} else {
					okc := ex.sc.Fresh("implements", SBool)
					ex.sc.Assert(Implies(Or(cs...), okc))
					ex.sc.Assert(Implies(okc, Not(Eq(tag, IntLit(0)))))
					ok = okc
				}
			}
			res = SV{Ite(ok, t, zeroTerm(SIface))}
			if !x.CommaOk {
				res = SV{t}
			}
		} else {
			ok = Eq(tag, IntLit(int64(ex.typeTag(x.AssertedType))))
			res = ex.decodeData(x.AssertedType, app(SInt, "if.data", t))
			if _, isPtr := x.AssertedType.Underlying().(*types.Pointer); isPtr {
				// a pointer held by an interface value refers to an existing object
				if sv, isSV := res.(SV); isSV && sv.T.Sort == SInt {
					ex.sc.Assert(Implies(ok, And(app(SBool, ">=", sv.T, IntLit(0)), app(SBool, "<", sv.T, st.alloc))))
				}
			}
			if x.CommaOk {
				res = ex.mergeVal(ok, res, ex.zeroVal(x.AssertedType))
			}
		}
	}
	if x.CommaOk {
		return TupleV{F: []Val{res, SV{ok}}}
	}
	if ex.checkPanics {
		ex.oblige(fr, "assert", ex.ld.exprAt(x.Pos(), "assert"), fr.blockPC, ok, x.Pos())
	}
	return res
}

func isRepoType(t types.Type) bool {
	if n, ok := t.(*types.Named); ok && n.Obj().Pkg() != nil {
		return strings.HasPrefix(n.Obj().Pkg().Path(), repoModule)
	}
	return false
}

func (ex *Exec) indexAddr(fr *Frame, st *State, x *ssa.IndexAddr) Val {
	base := ex.get(fr, x.X)
	idx := ex.get(fr, x.Index)
	switch b := base.(type) {
	case CellPtr:
		if c, ok := x.Index.(*ssa.Const); ok {
			i, _ := constant.Int64Val(constant.ToInt(c.Value))
			return CellPtr{C: b.C, Path: append(append([]int{}, b.Path...), int(i))}
		}
	case CellSlice:
		if c, ok := x.Index.(*ssa.Const); ok {
			i, _ := constant.Int64Val(constant.ToInt(c.Value))
			if ex.checkPanics && (int(i) < 0 || b.Lo+int(i) >= b.Hi) {
				ex.oblige(fr, "index", ex.ld.exprAt(x.Pos(), "index"), fr.blockPC, tFalse, x.Pos())
			}
			return CellPtr{C: b.C, Path: []int{b.Lo + int(i)}}
		}
	case SV:
		if b.T.Sort == SSlice {
			i := ex.term(idx, SInt)
			if ex.checkPanics {
				ex.oblige(fr, "index", ex.ld.exprAt(x.Pos(), "index"), fr.blockPC,
					And(app(SBool, "<=", IntLit(0), i), app(SBool, "<", i, app(SInt, "sl.len", b.T))), x.Pos())
			}
			elem := x.X.Type().Underlying().(*types.Slice).Elem()
			return ElemPtr{Arr: app(SInt, "sl.arr", b.T), Idx: app(SInt, "+", app(SInt, "sl.off", b.T), i), Elem: elem}
		}
	}
	ex.unsup(fmt.Sprintf("IndexAddr on %T in %s", base, fr.label))
	return Opaque{"indexaddr"}
}

func (ex *Exec) index(fr *Frame, st *State, x *ssa.Index) Val {
	base := ex.get(fr, x.X)
	idx := ex.get(fr, x.Index)
	switch b := base.(type) {
	case ArrV:
		if c, ok := x.Index.(*ssa.Const); ok {
			i, _ := constant.Int64Val(constant.ToInt(c.Value))
			if int(i) < len(b.Elems) {
				return b.Elems[i]
			}
		}
		// symbolic index: ite chain
		it := ex.term(idx, SInt)
		if ex.checkPanics {
			ex.oblige(fr, "index", ex.ld.exprAt(x.Pos(), "index"), fr.blockPC,
				And(app(SBool, "<=", IntLit(0), it), app(SBool, "<", it, IntLit(int64(len(b.Elems))))), x.Pos())
		}
		var res Val
		for i := len(b.Elems) - 1; i >= 0; i-- {
			if res == nil {
				res = b.Elems[i]
			} else {
				res = ex.mergeVal(Eq(it, IntLit(int64(i))), b.Elems[i], res)
			}
		}
		if res != nil {
			return res
		}
	case SV:
		if b.T.Sort == SStr {
			return ex.strIndex(fr, b.T, ex.term(idx, SInt), x.Pos())
		}
	}
	ex.unsup(fmt.Sprintf("Index on %T", base))
	return ex.freshVal(x.Type(), x.Name())
}

func (ex *Exec) strIndex(fr *Frame, s, i Term, pos token.Pos) Val {
	if ex.checkPanics {
		ex.oblige(fr, "index", ex.ld.exprAt(pos, "index"), fr.blockPC,
			And(app(SBool, "<=", IntLit(0), i), app(SBool, "<", i, app(SInt, "str.len_", s))), pos)
	}
	c := ex.sc.Name("ch", app(SInt, "str.at_", s, i))
	ex.sc.Assert(And(app(SBool, "<=", IntLit(0), c), app(SBool, "<=", c, IntLit(255))))
	return SV{c}
}

func mapKey(mt *types.Map) string {
	return "M." + typeName(mt.Key()) + "." + typeName(mt.Elem())
}

func (ex *Exec) lookup(fr *Frame, st *State, x *ssa.Lookup) Val {
	base := ex.get(fr, x.X)
	idx := ex.get(fr, x.Index)
	if mt, ok := x.X.Type().Underlying().(*types.Map); ok {
		// init-only literal global map?
		if gi := ex.initOnlyMapOf(fr, x.X); gi != nil {
			return ex.lookupLiteralMap(gi, mt, idx, x.CommaOk)
		}
		ks, kok := scalarSort(mt.Key())
		vs, vok := scalarSort(mt.Elem())
		if kok && vok {
			m := ex.term(base, SInt)
			k := ex.term(idx, ks)
			valA := ex.heapRead(st, mapKey(mt)+".val", ArraySort(SInt, ArraySort(ks, vs)))
			hasA := ex.heapRead(st, mapKey(mt)+".has", ArraySort(SInt, ArraySort(ks, SBool)))
			has := And(Not(Eq(m, IntLit(0))), Select(Select(hasA, m), k))
			val := ex.sc.Name("mv", Ite(has, Select(Select(valA, m), k), zeroTerm(vs)))
			ex.assumeLoaded(st, mt.Elem(), val)
			if x.CommaOk {
				return TupleV{F: []Val{SV{val}, SV{has}}}
			}
			return SV{val}
		}
		ex.unsup("map with non-scalar key/elem " + mt.String())
		return ex.freshVal(x.Type(), x.Name())
	}
	// string index
	if sv, ok := base.(SV); ok && sv.T.Sort == SStr {
		return ex.strIndex(fr, sv.T, ex.term(idx, SInt), x.Pos())
	}
	ex.unsup("lookup")
	return ex.freshVal(x.Type(), x.Name())
}

func (ex *Exec) mapUpdate(fr *Frame, st *State, x *ssa.MapUpdate) {
	mt := x.Map.Type().Underlying().(*types.Map)
	ks, kok := scalarSort(mt.Key())
	vs, vok := scalarSort(mt.Elem())
	m := ex.term(ex.get(fr, x.Map), SInt)
	if ex.checkPanics {
		ex.oblige(fr, "nilmap", ex.ld.exprAt(x.Pos(), "index"), fr.blockPC, Not(Eq(m, IntLit(0))), x.Pos())
	}
	if !kok || !vok {
		ex.unsup("map update with non-scalar key/elem " + mt.String())
		return
	}
	k := ex.term(ex.get(fr, x.Key), ks)
	v := ex.term(ex.get(fr, x.Value), vs)
	valK, hasK := mapKey(mt)+".val", mapKey(mt)+".has"
	valA := ex.heapRead(st, valK, ArraySort(SInt, ArraySort(ks, vs)))
	hasA := ex.heapRead(st, hasK, ArraySort(SInt, ArraySort(ks, SBool)))
	ex.heapSet(st, valK, Store(valA, m, Store(Select(valA, m), k, v)))
	ex.heapSet(st, hasK, Store(hasA, m, Store(Select(hasA, m), k, tTrue)))
}

func (ex *Exec) next(fr *Frame, st *State, x *ssa.Next) Val {
	it := ex.get(fr, x.Iter)
	ok := ex.sc.Fresh("next.ok", SBool)
	rng, _ := x.Iter.(*ssa.Range)
	tup := x.Type().(*types.Tuple)
	if x.IsString {
		k := ex.sc.Fresh("next.i", SInt)
		r := ex.sc.Fresh("next.rune", SInt)
		if sv, isS := it.(SV); isS && sv.T.Sort == SStr {
			ex.sc.Assert(Implies(ok, And(app(SBool, "<=", IntLit(0), k), app(SBool, "<", k, app(SInt, "str.len_", sv.T)))))
		}
		ex.sc.Assert(And(app(SBool, ">=", r, IntLit(0)), app(SBool, "<=", r, IntLit(1114111))))
		return TupleV{F: []Val{SV{ok}, SV{k}, SV{r}}}
	}
	if rng != nil {
		if mt, isM := rng.X.Type().Underlying().(*types.Map); isM {
			ks, kok := scalarSort(mt.Key())
			vs, vok := scalarSort(mt.Elem())
			if kok && vok {
				k := ex.sc.Fresh("next.k", ks)
				ex.assumeTypeInv(mt.Key(), k, tTrue)
				m := ex.term(it, SInt)
				valA := ex.heapRead(st, mapKey(mt)+".val", ArraySort(SInt, ArraySort(ks, vs)))
				hasA := ex.heapRead(st, mapKey(mt)+".has", ArraySort(SInt, ArraySort(ks, SBool)))
				ex.sc.Assert(Implies(ok, And(Not(Eq(m, IntLit(0))), Select(Select(hasA, m), k))))
				v := ex.sc.Name("next.v", Select(Select(valA, m), k))
				ex.assumeLoaded(st, mt.Elem(), v)
				return TupleV{F: []Val{SV{ok}, SV{k}, SV{v}}}
			}
		}
	}
	fs := []Val{SV{ok}}
	for i := 1; i < tup.Len(); i++ {
		fs = append(fs, ex.freshVal(tup.At(i).Type(), "next"))
	}
	return TupleV{F: fs}
}

func (ex *Exec) slice(fr *Frame, st *State, x *ssa.Slice) Val {
	base := ex.get(fr, x.X)
	optTerm := func(v ssa.Value) (Term, bool) {
		if v == nil {
			return Term{}, false
		}
		return ex.term(ex.get(fr, v), SInt), true
	}
	lo, hasLo := optTerm(x.Low)
	hi, hasHi := optTerm(x.High)
	mx, hasMax := optTerm(x.Max)
	switch b := base.(type) {
	case CellPtr:
		if at, ok := b.C.Typ.Underlying().(*types.Array); ok && !hasLo && !hasHi && !hasMax && len(b.Path) == 0 {
			if sliceOnlyVariadic(x) {
				return CellSlice{C: b.C, Lo: 0, Hi: int(at.Len())}
			}
			// the slice lives on: give it a real backing array with the current elements
			return ex.materializeCellSlice(st, b.C, at)
		}
	case SV:
		switch b.T.Sort {
		case SStr:
			n := app(SInt, "str.len_", b.T)
			if !hasLo {
				lo = IntLit(0)
			}
			if !hasHi {
				hi = n
			}
			if ex.checkPanics {
				ex.oblige(fr, "slice", ex.ld.exprAt(x.Pos(), "slice"), fr.blockPC,
					And(app(SBool, "<=", IntLit(0), lo), app(SBool, "<=", lo, hi), app(SBool, "<=", hi, n)), x.Pos())
			}
			if !hasLo && !hasHi {
				return b
			}
			r := ex.sc.Name("sub", app(SStr, "str.sub_", b.T, lo, hi))
			ex.sc.Assert(Implies(And(app(SBool, "<=", IntLit(0), lo), app(SBool, "<=", lo, hi), app(SBool, "<=", hi, n)),
				Eq(app(SInt, "str.len_", r), app(SInt, "-", hi, lo))))
			return SV{r}
		case SSlice:
			ln := app(SInt, "sl.len", b.T)
			cp := app(SInt, "sl.cap", b.T)
			if !hasLo {
				lo = IntLit(0)
			}
			if !hasHi {
				hi = ln
			}
			if !hasMax {
				mx = cp
			}
			if ex.checkPanics {
				ex.oblige(fr, "slice", ex.ld.exprAt(x.Pos(), "slice"), fr.blockPC,
					And(app(SBool, "<=", IntLit(0), lo), app(SBool, "<=", lo, hi), app(SBool, "<=", hi, mx), app(SBool, "<=", mx, cp)), x.Pos())
			}
			r := app(SSlice, "mk-slice", app(SInt, "sl.arr", b.T), app(SInt, "+", app(SInt, "sl.off", b.T), lo),
				app(SInt, "-", hi, lo), app(SInt, "-", mx, lo))
			return SV{ex.sc.Name("slice", r)}
		}
	}
	ex.unsup(fmt.Sprintf("Slice of %T in %s", base, fr.label))
	return ex.freshVal(x.Type(), x.Name())
}

func constArray(elem Sort, v Term) Term {
	as := ArraySort(SInt, elem)
	return T(as, fmt.Sprintf("((as const %s) %s)", as, v.S))
}

func (ex *Exec) makeSlice(fr *Frame, st *State, x *ssa.MakeSlice) Val {
	ln := ex.term(ex.get(fr, x.Len), SInt)
	cp := ex.term(ex.get(fr, x.Cap), SInt)
	if ex.checkPanics {
		ex.oblige(fr, "makeslice", ex.ld.exprAt(x.Pos(), "call"), fr.blockPC, And(app(SBool, "<=", IntLit(0), ln), app(SBool, "<=", ln, cp)), x.Pos())
	}
	r := ex.newRef(st, "arr")
	ex.sc.Assert(app(SBool, ">", r, IntLit(0)))
	elem := x.Type().Underlying().(*types.Slice).Elem()
	if ls, ok := elemLeaves(elem); ok {
		for _, l := range ls {
			key := elemLeafKey(elem, l)
			E := ex.heapRead(st, key, ArraySort(SInt, ArraySort(SInt, l.sort)))
			ex.heapSet(st, key, Store(E, r, constArray(l.sort, zeroTerm(l.sort))))
		}
	} else {
		ex.unsup("make slice of non-scalar " + elem.String())
	}
	return SV{ex.sc.Name("mkslice", app(SSlice, "mk-slice", r, IntLit(0), ln, cp))}
}

// strCat builds a concatenation with its ground facts (no quantified axioms).
func (ex *Exec) strCat(x, y Term) Term {
	if x.S == "str.empty_" {
		return y
	}
	if y.S == "str.empty_" {
		return x
	}
	raw := app(SStr, "str.cat_", x, y)
	if ex.sc.inQuant > 0 {
		return raw
	}
	r := ex.sc.Fresh("cat", SStr)
	ex.sc.Assert(Eq(r, raw))
	ex.sc.Assert(Eq(app(SInt, "str.len_", r), app(SInt, "+", app(SInt, "str.len_", x), app(SInt, "str.len_", y))))
	ex.sc.Assert(Implies(Eq(x, T(SStr, "str.empty_")), Eq(r, y)))
	ex.sc.Assert(Implies(Eq(y, T(SStr, "str.empty_")), Eq(r, x)))
	return r
}

// sliceOnlyVariadic: the slice value is only used as the variadic argument of calls.
func sliceOnlyVariadic(x *ssa.Slice) bool {
	for _, r := range *x.Referrers() {
		switch u := r.(type) {
		case *ssa.Call:
			n := len(u.Call.Args)
			if n == 0 || u.Call.Args[n-1] != x {
				return false
			}
			if bi, ok := u.Call.Value.(*ssa.Builtin); ok && bi.Name() != "append" {
				return false
			}
		case *ssa.DebugRef:
		default:
			return false
		}
	}
	return true
}

func (ex *Exec) materializeCellSlice(st *State, c *Cell, at *types.Array) Val {
	arr, _ := st.cells[c].(ArrV)
	n := int64(len(arr.Elems))
	r := ex.newRef(st, "lit")
	ex.sc.Assert(app(SBool, ">", r, IntLit(0)))
	if s, ok := scalarSort(at.Elem()); ok {
		key := elemKey(at.Elem())
		E := ex.heapRead(st, key, ArraySort(SInt, ArraySort(SInt, s)))
		row := constArray(s, zeroTerm(s))
		for i, e := range arr.Elems {
			row = Store(row, IntLit(int64(i)), ex.term(e, s))
		}
		ex.heapSet(st, key, Store(E, r, row))
	} else {
		ex.unsup("slice literal of non-scalar " + at.Elem().String())
	}
	return SV{ex.sc.Name("litslice", app(SSlice, "mk-slice", r, IntLit(0), IntLit(n), IntLit(n)))}
}

// addElemKeys marks the element arrays of a slice element type as modified.
func addElemKeys(ms *modSet, elem types.Type) {
	if ls, ok := elemLeaves(elem); ok {
		for _, l := range ls {
			ms.heap[elemLeafKey(elem, l)] = true
		}
		return
	}
	ms.heap[elemKey(elem)] = true
}
