package main

// SMT terms, script assembly and the solver race.

import (
	"bytes"
	"context"
	"fmt"
	"os"
	"os/exec"
	"path/filepath"
	"regexp"
	"sort"
	"strconv"
	"strings"
	"sync"
	"time"
)

type Sort string

const (
	SInt   Sort = "Int"
	SBool  Sort = "Bool"
	SReal  Sort = "Real"
	SStr   Sort = "Str"
	SIface Sort = "Iface"
	SSlice Sort = "Slice"
)

func ArraySort(idx, elem Sort) Sort { return Sort("(Array " + string(idx) + " " + string(elem) + ")") }

type Term struct {
	S    string
	Sort Sort
}

func (t Term) String() string { return t.S }

func T(sort Sort, s string) Term { return Term{S: s, Sort: sort} }

func IntLit(n int64) Term {
	if n < 0 {
		return T(SInt, "(- "+strconv.FormatInt(-n, 10)+")")
	}
	return T(SInt, strconv.FormatInt(n, 10))
}

func BigIntLit(s string) Term {
	if strings.HasPrefix(s, "-") {
		return T(SInt, "(- "+s[1:]+")")
	}
	return T(SInt, s)
}

func BoolLit(b bool) Term {
	if b {
		return T(SBool, "true")
	}
	return T(SBool, "false")
}

var tTrue = BoolLit(true)
var tFalse = BoolLit(false)

func app(sort Sort, op string, args ...Term) Term {
	var b strings.Builder
	b.WriteString("(")
	b.WriteString(op)
	for _, a := range args {
		b.WriteString(" ")
		b.WriteString(a.S)
	}
	b.WriteString(")")
	return T(sort, b.String())
}

func And(ts ...Term) Term {
	var out []Term
	for _, t := range ts {
		if t.S == "true" {
			continue
		}
		if t.S == "false" {
			return tFalse
		}
		out = append(out, t)
	}
	if len(out) == 0 {
		return tTrue
	}
	if len(out) == 1 {
		return out[0]
	}
	return app(SBool, "and", out...)
}

func Or(ts ...Term) Term {
	var out []Term
	for _, t := range ts {
		if t.S == "false" {
			continue
		}
		if t.S == "true" {
			return tTrue
		}
		out = append(out, t)
	}
	if len(out) == 0 {
		return tFalse
	}
	if len(out) == 1 {
		return out[0]
	}
	return app(SBool, "or", out...)
}

func Not(t Term) Term {
	if t.S == "true" {
		return tFalse
	}
	if t.S == "false" {
		return tTrue
	}
	if strings.HasPrefix(t.S, "(not ") && balancedPrefix(t.S[5:len(t.S)-1]) {
		return T(SBool, t.S[5:len(t.S)-1])
	}
	return app(SBool, "not", t)
}

func balancedPrefix(s string) bool {
	d := 0
	for i, c := range s {
		if c == '(' {
			d++
		} else if c == ')' {
			d--
			if d == 0 && i != len(s)-1 {
				return false
			}
			if d < 0 {
				return false
			}
		} else if d == 0 && c == ' ' {
			return false
		}
	}
	return d == 0
}

func Implies(a, b Term) Term {
	if a.S == "true" {
		return b
	}
	if a.S == "false" || b.S == "true" {
		return tTrue
	}
	return app(SBool, "=>", a, b)
}

func Eq(a, b Term) Term {
	if a.S == b.S {
		return tTrue
	}
	return app(SBool, "=", a, b)
}

func Ite(c, a, b Term) Term {
	if c.S == "true" {
		return a
	}
	if c.S == "false" {
		return b
	}
	if a.S == b.S {
		return a
	}
	if a.Sort == SBool {
		if a.S == "true" && b.S == "false" {
			return c
		}
		if a.S == "false" && b.S == "true" {
			return Not(c)
		}
	}
	return app(a.Sort, "ite", c, a, b)
}

func Select(arr, idx Term) Term {
	s := string(arr.Sort)
	// (Array I E)
	inner := strings.TrimSuffix(strings.TrimPrefix(s, "(Array "), ")")
	// first sort token
	_, elem := splitSort(inner)
	return app(Sort(elem), "select", arr, idx)
}

func splitSort(s string) (string, string) {
	s = strings.TrimSpace(s)
	if strings.HasPrefix(s, "(") {
		d := 0
		for i, c := range s {
			if c == '(' {
				d++
			} else if c == ')' {
				d--
				if d == 0 {
					return s[:i+1], strings.TrimSpace(s[i+1:])
				}
			}
		}
	}
	i := strings.IndexByte(s, ' ')
	if i < 0 {
		return s, ""
	}
	return s[:i], strings.TrimSpace(s[i+1:])
}

// arrayKV splits "(Array K V)" into its index and element sorts.
func arrayKV(s Sort) (Sort, Sort) {
	t := strings.TrimSpace(string(s))
	if !strings.HasPrefix(t, "(Array ") || !strings.HasSuffix(t, ")") {
		return SInt, SInt
	}
	k, v := splitSort(t[7 : len(t)-1])
	return Sort(k), Sort(v)
}

func Store(arr, idx, v Term) Term { return app(arr.Sort, "store", arr, idx, v) }

func ToReal(t Term) Term {
	if t.Sort == SReal {
		return t
	}
	if _, err := strconv.ParseInt(t.S, 10, 64); err == nil {
		return T(SReal, t.S+".0")
	}
	return app(SReal, "to_real", t)
}

// ---------------------------------------------------------------------------
// Script: a linear list of declarations and assertions; obligations mark
// positions. Query k = all lines before position k + (assert (and pc (not g))).

type Obligation struct {
	Name   string // stable name
	Kind   string // index, nil, assert, ensures, requires, invariant, ...
	Fn     string
	Props  []string
	Pos    int    // position in script lines
	Goal   Term   // pc => goal must be valid
	PC     Term
	Pos2   string // source position (informational only)
	Inputs []string // names of symbols worth reporting in a model

	// results
	Status  string // proved | refuted | unknown | error
	Backend string
	Secs    float64
	Model   map[string]string
	Output  string
	Cover   bool // a cover (must be sat) rather than a proof goal
	Known   *Known
	Trivial bool // the goal is syntactically true (kept for its name, see obligeEnv)
}

type Script struct {
	Prelude []string
	Lines   []string
	declared map[string]bool
	Obls    []*Obligation
	nfresh  int
	goalAssumes map[int]bool // line indexes holding "assume the goal just asserted"
	inQuant int
	quantFresh int
}

func NewScript() *Script {
	return &Script{declared: map[string]bool{}}
}

func (s *Script) Declare(name string, sort Sort) Term {
	if !s.declared[name] {
		s.declared[name] = true
		s.Lines = append(s.Lines, fmt.Sprintf("(declare-const %s %s)", name, sort))
		if sort == SStr {
			s.Lines = append(s.Lines, fmt.Sprintf("(assert (>= (str.len_ %s) 0))", name))
			s.Lines = append(s.Lines, fmt.Sprintf("(assert (=> (= (str.len_ %s) 0) (= %s str.empty_)))", name, name))
		}
	}
	return T(sort, name)
}

func (s *Script) DeclareFun(name string, args []Sort, res Sort) {
	if s.declared[name] {
		return
	}
	s.declared[name] = true
	var as []string
	for _, a := range args {
		as = append(as, string(a))
	}
	s.Lines = append(s.Lines, fmt.Sprintf("(declare-fun %s (%s) %s)", name, strings.Join(as, " "), res))
}

func (s *Script) Raw(line string) { s.Lines = append(s.Lines, line) }

func (s *Script) Fresh(hint string, sort Sort) Term {
	if s.inQuant > 0 {
		s.quantFresh++
	}
	s.nfresh++
	name := fmt.Sprintf("%s!%d", smtIdent(hint), s.nfresh)
	return s.Declare(name, sort)
}

// Name introduces a named constant equal to t (keeps formulas small).
func (s *Script) Name(hint string, t Term) Term {
	if s.inQuant > 0 {
		return t
	}
	if len(t.S) < 24 && !strings.Contains(t.S, "(") {
		return t
	}
	c := s.Fresh(hint, t.Sort)
	s.Assert(Eq(c, t))
	return c
}

func (s *Script) Assert(t Term) {
	if t.S == "true" || s.inQuant > 0 {
		return
	}
	s.Lines = append(s.Lines, "(assert "+t.S+")")
}

// AssumeGoal records the assumption of an obligation's goal (assert-then-assume).
func (s *Script) AssumeGoal(t Term) {
	if t.S == "true" || s.inQuant > 0 {
		return
	}
	if s.goalAssumes == nil {
		s.goalAssumes = map[int]bool{}
	}
	s.goalAssumes[len(s.Lines)] = true
	s.Lines = append(s.Lines, "(assert "+t.S+")")
}

func (s *Script) Comment(c string) {
	s.Lines = append(s.Lines, "; "+strings.ReplaceAll(c, "\n", " "))
}

var identRe = regexp.MustCompile(`[^A-Za-z0-9_.$!]`)

func smtIdent(s string) string {
	s = identRe.ReplaceAllString(s, "_")
	if s == "" || (s[0] >= '0' && s[0] <= '9') {
		s = "_" + s
	}
	return s
}

func (s *Script) AddObligation(o *Obligation) {
	o.Pos = len(s.Lines)
	s.Obls = append(s.Obls, o)
}

const smtHeader = `(set-option :produce-models true)
(set-logic ALL)
(declare-sort Str 0)
(declare-datatypes ((Iface 0)) (((mk-iface (if.tag Int) (if.data Int)))))
(declare-datatypes ((Slice 0)) (((mk-slice (sl.arr Int) (sl.off Int) (sl.len Int) (sl.cap Int)))))
(declare-fun str.len_ (Str) Int)
(declare-fun str.at_ (Str Int) Int)
(declare-fun str.cat_ (Str Str) Str)
(declare-fun str.sub_ (Str Int Int) Str)
(declare-fun str.data_ (Str) Int)
(declare-fun data.str_ (Int) Str)
(declare-fun real.data_ (Real) Int)
(declare-fun data.real_ (Int) Real)
`

func (s *Script) Query(o *Obligation) string {
	var b strings.Builder
	b.WriteString(smtHeader)
	for _, l := range s.Prelude {
		b.WriteString(l)
		b.WriteString("\n")
	}
	for i, l := range s.Lines[:o.Pos] {
		if o.Cover && s.goalAssumes[i] {
			continue // covers must not depend on goals that may have failed
		}
		b.WriteString(l)
		b.WriteString("\n")
	}
	if o.Cover {
		b.WriteString("(assert " + And(o.PC, o.Goal).S + ")\n")
	} else {
		b.WriteString("(assert " + And(o.PC, Not(o.Goal)).S + ")\n")
	}
	b.WriteString("(check-sat)\n")
	if len(o.Inputs) > 0 {
		b.WriteString("(get-value (" + strings.Join(o.Inputs, " ") + "))\n")
	}
	return b.String()
}

// ---------------------------------------------------------------------------
// Solver race.

type SolverResult struct {
	Status  string // unsat | sat | unknown | timeout | error
	Solver  string
	Secs    float64
	Output  string
	Model   map[string]string
}

var solverCmds = map[string][]string{
	"z3-new": {"z3-new", "-smt2"},
	"z3":     {"/usr/bin/z3", "-smt2"},
	"cvc5":   {"cvc5", "--lang=smt2", "--produce-models"},
}

var scratchDir string
var scratchOnce sync.Once

func scratch() string {
	scratchOnce.Do(func() {
		base := os.Getenv("GV_SCRATCH")
		if base == "" {
			base = "/var/tmp"
		}
		d, err := os.MkdirTemp(base, "gv-scratch-")
		if err != nil {
			panic(err)
		}
		scratchDir = d
	})
	return scratchDir
}

func cleanupScratch() {
	if scratchDir != "" && os.Getenv("GV_KEEP") == "" {
		os.RemoveAll(scratchDir)
	}
}

func runSolver(ctx context.Context, solver, file string, timeout time.Duration) SolverResult {
	cmdline := append([]string{}, solverCmds[solver]...)
	switch solver {
	case "z3", "z3-new":
		cmdline = append(cmdline, fmt.Sprintf("-T:%d", int(timeout.Seconds())+1), fmt.Sprintf("-t:%d", timeout.Milliseconds()))
	case "cvc5":
		cmdline = append(cmdline, fmt.Sprintf("--tlimit=%d", timeout.Milliseconds()))
	}
	cmdline = append(cmdline, file)
	cctx, cancel := context.WithTimeout(ctx, timeout+3*time.Second)
	defer cancel()
	start := time.Now()
	cmd := exec.CommandContext(cctx, cmdline[0], cmdline[1:]...)
	var out bytes.Buffer
	cmd.Stdout = &out
	cmd.Stderr = &out
	_ = cmd.Run()
	secs := time.Since(start).Seconds()
	text := out.String()
	first := strings.TrimSpace(strings.SplitN(text, "\n", 2)[0])
	res := SolverResult{Solver: solver, Secs: secs, Output: text}
	switch {
	case first == "unsat":
		res.Status = "unsat"
	case first == "sat":
		res.Status = "sat"
		res.Model = parseGetValue(text)
	case first == "unknown":
		res.Status = "unknown"
	case strings.Contains(text, "timeout") || cctx.Err() != nil || strings.Contains(text, "interrupted"):
		res.Status = "timeout"
	default:
		res.Status = "error"
	}
	return res
}

// parseGetValue parses ((name value) (name value) ...) loosely.
func parseGetValue(text string) map[string]string {
	i := strings.Index(text, "((")
	if i < 0 {
		return nil
	}
	text = text[i:]
	m := map[string]string{}
	// tokenise s-expressions
	pos := 1
	for pos < len(text) {
		for pos < len(text) && (text[pos] == ' ' || text[pos] == '\n' || text[pos] == '\t' || text[pos] == '\r') {
			pos++
		}
		if pos >= len(text) || text[pos] != '(' {
			break
		}
		// find matching paren
		d := 0
		j := pos
		for ; j < len(text); j++ {
			if text[j] == '(' {
				d++
			} else if text[j] == ')' {
				d--
				if d == 0 {
					break
				}
			}
		}
		pair := text[pos+1 : j]
		k := strings.IndexAny(pair, " \n")
		if k > 0 {
			m[strings.TrimSpace(pair[:k])] = strings.Join(strings.Fields(pair[k+1:]), " ")
		}
		pos = j + 1
	}
	return m
}

type SolveOpts struct {
	Timeout  time.Duration
	AllThree bool // thorough: run every solver, require no disagreement
	// ShortOnly: obligations the baseline already has as undecided get the
	// first stage only in the quick tier (their status cannot raise an alarm).
	ShortOnly func(name string) bool
}

var solverSem = make(chan struct{}, 14)

// Solve races the solvers on one query text.
func Solve(name, query string, opts SolveOpts) (SolverResult, []SolverResult) {
	dir := scratch()
	file := filepath.Join(dir, smtIdent(name)+fmt.Sprintf("-%d.smt2", time.Now().UnixNano()%1000000))
	if err := os.WriteFile(file, []byte(query), 0644); err != nil {
		return SolverResult{Status: "error", Output: err.Error()}, nil
	}
	defer func() {
		if os.Getenv("GV_KEEP") == "" {
			os.Remove(file)
		}
	}()
	ctx, cancel := context.WithCancel(context.Background())
	defer cancel()

	if !opts.AllThree {
		// stage 1: z3-new alone with a short budget; stage 2: all three raced.
		solverSem <- struct{}{}
		short := opts.Timeout
		if short > 3*time.Second {
			short = 3 * time.Second
		}
		r := runSolver(ctx, "z3-new", file, short)
		<-solverSem
		if r.Status == "unsat" || r.Status == "sat" {
			return r, []SolverResult{r}
		}
		if opts.ShortOnly != nil && opts.ShortOnly(name) {
			r.Status = "unknown"
			return r, []SolverResult{r}
		}
	}
	solvers := []string{"z3-new", "z3", "cvc5"}
	ch := make(chan SolverResult, len(solvers))
	for _, s := range solvers {
		go func(s string) {
			solverSem <- struct{}{}
			defer func() { <-solverSem }()
			ch <- runSolver(ctx, s, file, opts.Timeout)
		}(s)
	}
	var all []SolverResult
	var best SolverResult
	best.Status = "unknown"
	for range solvers {
		r := <-ch
		all = append(all, r)
		if r.Status == "unsat" || r.Status == "sat" {
			if best.Status != "unsat" && best.Status != "sat" {
				best = r
				if !opts.AllThree {
					cancel()
					return best, all
				}
			} else if best.Status != r.Status {
				best = SolverResult{Status: "error", Output: fmt.Sprintf("SOLVER DISAGREEMENT: %s=%s %s=%s", best.Solver, best.Status, r.Solver, r.Status)}
				return best, all
			}
		}
	}
	if best.Status != "unsat" && best.Status != "sat" {
		// summarise
		var parts []string
		for _, r := range all {
			parts = append(parts, r.Solver+"="+r.Status)
			best.Secs += r.Secs
		}
		sort.Strings(parts)
		best.Output = strings.Join(parts, " ")
		for _, r := range all {
			if r.Status == "error" {
				best.Output += "\n" + r.Solver + ": " + firstLines(r.Output, 3)
			}
		}
	}
	return best, all
}

func firstLines(s string, n int) string {
	ls := strings.Split(s, "\n")
	if len(ls) > n {
		ls = ls[:n]
	}
	return strings.Join(ls, "\n")
}
