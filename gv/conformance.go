package main

// Conformance of assumed contracts with the real packages (thorough tier).
// The template in /verif/conformance holds hand-written drivers; the spec
// functions it calls are generated here from the contract text of this run.
// Results are recorded as BOUNDED records (sampled validation of a trusted
// component, never counted as proved); a mismatch is an engine error.

import (
	"bytes"
	"context"
	"fmt"
	"os"
	"os/exec"
	"path/filepath"
	"strings"
	"time"
)

func (ctx *checkCtx) runConformance(name string, specs, consts []string) *JobResult {
	jr := &JobResult{}
	tmplPath := filepath.Join(verifDir(), "conformance", name+".go.tmpl")
	tmpl, err := os.ReadFile(tmplPath)
	if err != nil {
		jr.Errors = append(jr.Errors, "conformance: "+err.Error())
		return jr
	}
	ex := NewExec(ctx.ld, ctx.cs)
	tr := &goTr{ex: ex, cs: ctx.cs, vars: map[string]trVar{}, specs: map[string]bool{}, consts: map[string]bool{}, ld: ctx.ld}
	for _, s := range specs {
		if ctx.cs.Specs[s] == nil {
			jr.Errors = append(jr.Errors, "conformance: no spec func "+s)
			return jr
		}
		tr.specs[s] = true
	}
	for _, c := range consts {
		tr.consts[c] = true
	}
	defs := tr.specFuncDefs()
	if tr.err != nil {
		jr.Errors = append(jr.Errors, "conformance: "+tr.err.Error())
		return jr
	}
	src := strings.ReplaceAll(string(tmpl), "{{HELPERS}}", replayHelpers)
	// the second placeholder occurrence (first is in the header comment)
	src = strings.Replace(src, "\n{{SPECFUNCS}}\n", "\n"+defs+"\n", 1)
	dir := filepath.Join(scratch(), "conf-"+name)
	os.MkdirAll(dir, 0755)
	defer os.RemoveAll(dir)
	os.WriteFile(filepath.Join(dir, "go.mod"), []byte("module gvconf\n\ngo 1.21\n"), 0644)
	os.WriteFile(filepath.Join(dir, "conf_test.go"), []byte(src), 0644)
	cctx, cancel := context.WithTimeout(context.Background(), 600*time.Second)
	defer cancel()
	cmd := exec.CommandContext(cctx, "go", "test", "-vet=off", "-v", "-count=1", "-timeout", "500s", "-run", "^TestGvConformance$", ".")
	cmd.Dir = dir
	cmd.Env = append(os.Environ(), "GOFLAGS=-mod=mod", "GOPROXY=off", "GOSUMDB=off", "GOTOOLCHAIN=local")
	var out bytes.Buffer
	cmd.Stdout, cmd.Stderr = &out, &out
	t0 := time.Now()
	cmd.Run()
	text := out.String()
	rec := map[string]interface{}{"name": "conformance:" + name, "kind": "sampled validation of assumed contracts against the real packages", "secs": time.Since(t0).Seconds()}
	line := ""
	for _, l := range strings.Split(text, "\n") {
		if strings.HasPrefix(l, "GV-CONFORMANCE: OK") || strings.HasPrefix(l, "GV-CONFORMANCE: FAILED") {
			line = l
		}
	}
	rec["result"] = line
	rec["bound"] = "see /verif/conformance/" + name + ".go.tmpl; for time: every (day 0..32, month 0..13) of ~1400 sampled years of 0..9999 (all of 0..40, 1580..2110, 9980..9999, every 13th and every century) and 200000 sampled instant pairs, seed 1"
	jr.Bounded = append(jr.Bounded, rec)
	r := &ObRecord{Name: "conformance:" + name, Kind: "conformance", Fn: name, Bounded: true, Backend: "go test", Secs: time.Since(t0).Seconds(), Status: "bounded-ok"}
	if !strings.HasPrefix(line, "GV-CONFORMANCE: OK") {
		r.Status = "error"
		var mm []string
		for _, l := range strings.Split(text, "\n") {
			if strings.HasPrefix(l, "GV-CONFORMANCE: MISMATCH") && len(mm) < 5 {
				mm = append(mm, l)
			}
		}
		if len(mm) == 0 {
			mm = append(mm, firstLines(text, 12))
		}
		jr.Errors = append(jr.Errors, fmt.Sprintf("conformance %s: an assumed contract disagrees with the real package: %s", name, strings.Join(mm, " | ")))
	}
	jr.Records = append(jr.Records, r)
	jr.Notes = append(jr.Notes, "conformance "+name+": "+line)
	return jr
}

func init() {
	timeConf := func(ctx *checkCtx) *JobResult {
		if ctx.tier != "thorough" {
			return nil
		}
		return ctx.runConformance("time_conformance", []string{"leap", "dim", "diy", "cumDays", "yday", "daysBeforeYear", "dayno", "validDMY"}, []string{"NSDAY"})
	}
	for _, p := range []string{"C05", "C06", "C04"} {
		extraJobs[p] = append(extraJobs[p], timeConf)
	}
	stdConf := func(ctx *checkCtx) *JobResult {
		if ctx.tier != "thorough" {
			return nil
		}
		return ctx.runConformance("stdlib_conformance", nil, nil)
	}
	for _, p := range []string{"C01", "C03", "C15", "C16"} {
		extraJobs[p] = append(extraJobs[p], stdConf)
	}
}
