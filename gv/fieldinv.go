package main

// Field invariants: `//@ fieldinv C14 C03: HusbandNode.family, ...` declares
// that a pointer field of a struct type is never nil in any object that is
// visible between calls. The engine
//   - assumes it for every object that exists at function entry, after a
//     callee's effects and at a loop head (axiom on the base array, bounded by
//     the allocation counter at that point);
//   - obliges it at every store to the field, and for every object of the
//     type allocated by the function under verification at its returns, loop
//     entries and back edges;
//   - scans the whole module: every store to the field and every allocation
//     of the struct must sit in a function that is itself verified (has a
//     contract or sweep entry for one of the invariant's properties), and
//     every call of a function marked `closed` must come from verified code.
// Not checked: that a half-built object is not observed by a callee between
// its allocation and the store (the constructors here allocate and fill the
// object in one composite literal); reflection and unsafe.

import (
	"fmt"
	"go/token"
	"go/types"
	"sort"
	"strings"

	"golang.org/x/tools/go/ssa"
)

type FieldInv struct {
	Key   string // heap key, "H.gedcom.HusbandNode.family"
	Props []string
	File  string
}

type invAlloc struct {
	key string
	ref Term
	pc  Term
	pos token.Pos
}

func (cs *ContractSet) fieldInv(key string) *FieldInv {
	for _, fi := range cs.FieldInvs {
		if fi.Key == key {
			return fi
		}
	}
	return nil
}

// fieldInvAxiom: every existing object satisfies the invariant in array arr,
// and (heap closure) the object it points to exists as well.
func (ex *Exec) fieldInvAxiom(key string, arr Term, bound Term) {
	if ex.cs.fieldInv(key) == nil || arr.S == "" {
		return
	}
	ex.sc.Assert(T(SBool, fmt.Sprintf("(forall ((r!q Int)) (! (=> (and (< 0 r!q) (< r!q %s)) (and (< 0 (select %s r!q)) (< (select %s r!q) %s))) :pattern ((select %s r!q))))", bound.S, arr.S, arr.S, bound.S, arr.S)))
	ex.assumedUsed["field invariant "+strings.TrimPrefix(key, "H.")+" != nil"] = true
}

// checkInvAllocs obliges the invariant for objects allocated since mark.
func (ex *Exec) checkInvAllocs(fr *Frame, st *State, pc Term, from int, what string) {
	for _, ia := range ex.invAllocs[min(from, len(ex.invAllocs)):] {
		arr, ok := st.heap[ia.key]
		if !ok {
			continue
		}
		g := Implies(ia.pc, Not(Eq(Select(arr, ia.ref), IntLit(0))))
		ex.oblige(fr, "fieldinv", strings.TrimPrefix(ia.key, "H.")+"@"+what, pc, g, ia.pos)
	}
}

// storeInvCheck: a store into a field with an invariant is checked like an
// allocation: the object must satisfy the invariant at the next return, loop
// entry or back edge (a path that panics before that never shows the object).
func (ex *Exec) storeInvCheck(st *State, key string, base Term) {
	if ex.storeFr == nil || ex.cs.fieldInv(key) == nil {
		return
	}
	ex.invAllocs = append(ex.invAllocs, invAlloc{key: key, ref: base, pc: ex.storeFr.blockPC, pos: ex.storePos})
}

// ---------------------------------------------------------------------------
// module scan

func (ctx *checkCtx) runFieldInvScan() *JobResult {
	jr := &JobResult{}
	var invs []*FieldInv
	for _, fi := range ctx.cs.FieldInvs {
		if hasProp(fi.Props, ctx.prop) {
			invs = append(invs, fi)
		}
	}
	var closed []*Contract
	for _, c := range ctx.cs.Funcs {
		if c.Closed && hasProp(c.Props, ctx.prop) {
			closed = append(closed, c)
		}
	}
	if len(invs) == 0 && len(closed) == 0 {
		return nil
	}
	covered := func(fn *ssa.Function) bool {
		// the function itself has to be verified (a closure is not verified
		// with its parent)
		c := ctx.cs.Funcs[funcKey(fn)]
		return c != nil && !c.Trusted && !c.Extern && hasProp(c.Props, ctx.prop)
	}
	invKeys := map[string]*FieldInv{}
	invTypes := map[string][]string{} // type name -> keys
	for _, fi := range invs {
		invKeys[fi.Key] = fi
		tn := fi.Key[2:strings.LastIndex(fi.Key, ".")]
		invTypes[tn] = append(invTypes[tn], fi.Key)
	}
	closedKeys := map[string]*Contract{}
	for _, c := range closed {
		closedKeys[c.Key] = c
	}
	type site struct{ what, fn, pos string; ok bool }
	sites := map[string]*site{}
	add := func(what string, fn *ssa.Function, pos token.Pos) {
		k := what + "@" + funcKey(fn)
		ok := covered(fn)
		if s, dup := sites[k]; dup {
			s.ok = s.ok && ok
			return
		}
		sites[k] = &site{what, funcKey(fn), ctx.ld.posString(pos), ok}
	}
	for _, fn := range ctx.ld.AllFns {
		if !inRepo(fn) || fn.Blocks == nil || strings.HasSuffix(ctx.ld.posString(fn.Pos()), "_test.go") {
			continue
		}
		if fn.Synthetic != "" && !strings.HasPrefix(fn.Synthetic, "package init") {
			continue
		}
		for _, b := range fn.Blocks {
			for _, in := range b.Instrs {
				switch x := in.(type) {
				case *ssa.Store:
					if fa, ok := x.Addr.(*ssa.FieldAddr); ok {
						if pt, ok := fa.X.Type().Underlying().(*types.Pointer); ok {
							if _, name := typeAtPath(pt.Elem(), []int{fa.Field}); name != "" {
								if _, ok := invKeys[heapKeyFor(pt.Elem(), name)]; ok {
									add("fieldinv-store:"+typeName(pt.Elem())+"."+name, fn, x.Pos())
								}
							}
						}
					} else if pt, ok := x.Addr.Type().Underlying().(*types.Pointer); ok {
						// whole-struct store
						if ks := invTypes[typeName(pt.Elem())]; len(ks) > 0 {
							add("fieldinv-store:"+typeName(pt.Elem())+".*", fn, x.Pos())
						}
					}
				case *ssa.Alloc:
					if ks := invTypes[typeName(x.Type().(*types.Pointer).Elem())]; len(ks) > 0 {
						add("fieldinv-alloc:"+typeName(x.Type().(*types.Pointer).Elem()), fn, x.Pos())
					}
				case ssa.CallInstruction:
					if callee := x.Common().StaticCallee(); callee != nil {
						if _, ok := closedKeys[funcKey(callee)]; ok {
							add("closed-call:"+funcKey(callee), fn, x.Pos())
						}
					}
				}
			}
		}
	}
	var ks []string
	for k := range sites {
		ks = append(ks, k)
	}
	sort.Strings(ks)
	for _, k := range ks {
		s := sites[k]
		rec := &ObRecord{Name: k, Kind: "fieldinv-scan", Fn: s.fn, Status: "proved", Backend: "scan", Pos: s.pos, Decisive: true}
		if !s.ok {
			rec.Status = "refuted"
			rec.Detail = "the site is in " + s.fn + " (" + s.pos + "), which is not verified for " + ctx.prop + ": the invariant / precondition is not checked there"
		}
		jr.Records = append(jr.Records, rec)
	}
	jr.Notes = append(jr.Notes, fmt.Sprintf("field-invariant scan: %d store/allocation/closed-call sites in the module", len(ks)))
	return jr
}
