package main

// Contract files: comment-only Go files in /repo behind the build tag `verif`
// (zz_verif_contracts.go) and .gvc files under /verif/contracts for assumed
// contracts of external packages. Line-oriented; see DESIGN.md section 3.

import (
	"fmt"
	"go/ast"
	"go/parser"
	"os"
	"path/filepath"
	"regexp"
	"strconv"
	"strings"
)

type Clause struct {
	Index ast.Expr // for indexed ghost assignments g[Index] = Expr
	Label string
	Src   string
	Expr  ast.Expr
	Line  string // file:line
}

type LoopSpec struct {
	Ord        int
	Invariants []Clause
	Decreases  *Clause
	// Iters: per-iteration postconditions, obliged at every back edge;
	// old(e) is the value of e at the head of the iteration.
	Iters []Clause
	// NoBreak: the loop is left only through its header (no break, return or
	// goto out of the body): every element of the range is visited.
	NoBreak bool
}

// SweepEntry: a function swept for panic freedom without a written contract.
type SweepEntry struct {
	Key   string
	Props []string
	File  string
}

type KnownSpec struct {
	Prop  string
	Label string // obligation label (suffix match on obligation name)
	When  *Clause
	Text  string
}

type Contract struct {
	Key      string // e.g. "gedcom.Date.Time", "time.Time.Truncate", "fmt.Sprintf"
	Pkg      string // package name the contract file belongs to
	Extern   bool
	Params   []string // optional parameter names for externs
	Props    []string
	Requires []Clause
	Ensures  []Clause
	Lets     []Clause // Label = name
	Assigns  []string // nil = unspecified; ["nothing"] = pure
	AssignsSet bool
	// AssignRows: `assigns KEY[EXPR]` - array KEY may change only at the rows
	// (object references / backing arrays) named by EXPR evaluated in the
	// pre-state, and on objects allocated by the call.
	AssignRows map[string][]Clause
	Loops    map[int]*LoopSpec
	Inline   bool
	NoPanicCheck bool
	UsesCount bool // the contract speaks about counttrue(...): the counting theory for []bool is loaded
	Safety   bool // generate K1 obligations (index, nil, assert, slice, panic, div0)
	AllowPanics []AllowPanic
	Pure     bool
	File     string
	Format   string // for fmt.Sprintf-like externs: contract applies when arg0 == this literal
	HasFormat bool
	Knowns   []KnownSpec
	Ghosts   []GhostVar
	OnCalls  []OnCall
	Trusted  bool
	Replay   string
	OnlyProps []string // the contract stands in for the function only when one of these properties is checked
	Opaque   []string // callee patterns treated as opaque pure calls while verifying this function
	SafetyProps []string // when set: safety obligations only for these properties
	Recovers bool
	TrustFrame bool
	Closed   bool // every call site in the module must be in verified code (preconditions are not input assumptions)
	Sweep    bool // synthesised by a sweep directive: callers keep inlining the function
}

// AllowPanic: a documented panic that the property tolerates, optionally only under a condition.
type AllowPanic struct {
	Text string
	When *Clause
}

type GhostVar struct {
	Name string
	Type string
	Init *Clause
}

type OnCall struct {
	Callee string
	Ord    int // 0 = every
	When   *Clause
	Assigns []struct {
		Name string
		Expr Clause
	}
	Deep   bool
	Except []string // for wildcard callees (Type.*): method names that are not matched
	Assumes []Clause // trusted facts about an external callee stated over ghost state (listed as assumptions)
	Checks []Clause // obligations at the call (arguments arg0.., locals, ghosts in scope)
}

// FrameSpec is a property-level frame contract checked by the frame engine.
type FrameSpec struct {
	Key        string
	Props      []string
	Allows     []string // field patterns that may be written on pre-existing objects
	Denies     []string // if set: only writes matching these patterns (and not Allows) are violations
	AllowGlobals []string // package-level variables whose reachable objects may be written (pkg.name patterns)
	Thorough   bool     // only checked in the thorough tier
	ResultFresh []string // link fields through which the result must reach only fresh objects
	NoGlobals  bool
	NoUnsync   bool     // every write to a pre-existing object must be synchronised (race frame)
	Closures   bool     // apply to the closures defined in the function instead of the function itself
	NoUnknown  bool
	File       string
}

type SpecFunc struct {
	Name   string
	Params []SpecParam
	Result string
	Body   *Clause // nil => uninterpreted (ghost func)
	File   string
}

type SpecParam struct {
	Name string
	Type string
}

type Lemma struct {
	Name  string
	Props []string
	Body  Clause
	Axiom bool
	File  string
}

type ContractSet struct {
	Funcs  map[string]*Contract   // by key
	Formats map[string][]*Contract // extern key -> contracts with Format
	Specs  map[string]*SpecFunc
	Lemmas []*Lemma
	Consts map[string]*Clause
	Files  []string
	IfaceContracts map[string]*Contract // "gedcom.Node.AddNode"
	Frames []*FrameSpec
	PkgStates []*PkgStateSpec
	Sweeps []SweepEntry
	Rxps   []*RxpSpec
	RxpWithins []*RxpWithinSpec
	LoadErrors []string
	Seconds []*Contract // second contracts of a key (one of the pair has to be scoped)
	Scoped map[string]*Contract // `only PROPS` contracts, consulted before Funcs when the property matches
	FieldInvs []*FieldInv
	FieldGroups map[string][]string
}

func NewContractSet() *ContractSet {
	return &ContractSet{Funcs: map[string]*Contract{}, Formats: map[string][]*Contract{}, Specs: map[string]*SpecFunc{},
		Consts: map[string]*Clause{}, IfaceContracts: map[string]*Contract{}, FieldGroups: map[string][]string{}}
}

var labelRe = regexp.MustCompile(`^([A-Za-z][A-Za-z0-9_.\-]*):\s+(.*)$`)
var pkgClauseRe = regexp.MustCompile(`(?m)^package\s+(\w+)`)

func parseClause(src, where string) (Clause, error) {
	c := Clause{Src: strings.TrimSpace(src), Line: where}
	if m := labelRe.FindStringSubmatch(c.Src); m != nil && !strings.HasPrefix(m[2], "=") {
		c.Label = m[1]
		c.Src = m[2]
	}
	e, err := parser.ParseExpr(c.Src)
	if err != nil {
		return c, fmt.Errorf("%s: cannot parse %q: %v", where, c.Src, err)
	}
	c.Expr = e
	return c, nil
}

func (cs *ContractSet) LoadDir(dir string) error {
	var files []string
	filepath.Walk(dir, func(p string, info os.FileInfo, err error) error {
		if err != nil {
			return nil
		}
		if info.IsDir() && (info.Name() == ".git" || info.Name() == "node_modules") {
			return filepath.SkipDir
		}
		if !info.IsDir() && (info.Name() == "zz_verif_contracts.go" || strings.HasSuffix(info.Name(), ".gvc")) {
			files = append(files, p)
		}
		return nil
	})
	for _, f := range files {
		if err := cs.LoadFile(f); err != nil {
			return err
		}
	}
	return nil
}

func (cs *ContractSet) LoadFile(file string) error {
	data, err := os.ReadFile(file)
	if err != nil {
		return err
	}
	cs.Files = append(cs.Files, file)
	text := string(data)
	pkg := ""
	if m := pkgClauseRe.FindStringSubmatch(text); m != nil {
		pkg = m[1]
	}
	if strings.HasSuffix(file, ".go") {
		// must be comment-only behind the build tag
		if !strings.Contains(text, "//go:build verif") {
			return fmt.Errorf("%s: contract file lacks //go:build verif", file)
		}
	}
	// collect directive lines, joining continuations
	type dline struct {
		text string
		no   int
	}
	var lines []dline
	for i, raw := range strings.Split(text, "\n") {
		t := strings.TrimSpace(raw)
		if !strings.HasPrefix(t, "//@") {
			continue
		}
		t = strings.TrimSpace(t[3:])
		if t == "" {
			continue
		}
		// strip trailing comment  " // ..."
		if k := strings.Index(t, " // "); k >= 0 {
			t = strings.TrimSpace(t[:k])
		}
		if strings.HasPrefix(t, "|") && len(lines) > 0 {
			lines[len(lines)-1].text += " " + strings.TrimSpace(t[1:])
			continue
		}
		lines = append(lines, dline{t, i + 1})
	}
	var cur *Contract
	var curFrame *FrameSpec
	for _, l := range lines {
		where := fmt.Sprintf("%s:%d", file, l.no)
		word, rest := splitWord(l.text)
		if word == "frame" {
			key := rest
			if !strings.Contains(key, "/") && pkg != "" {
				key = pkg + "." + key
			}
			curFrame = &FrameSpec{Key: key, File: where}
			cs.Frames = append(cs.Frames, curFrame)
			cur = nil
			continue
		}
		if word == "rxpwithin" {
			// rxpwithin NAME props C15 kind KIND within: W
			k := strings.Index(rest, "within:")
			if k < 0 {
				return fmt.Errorf("%s: rxpwithin needs 'within:'", where)
			}
			f := strings.Fields(rest[:k])
			sp := &RxpWithinSpec{Within: strings.TrimSpace(rest[k+len("within:"):]), File: where, Pkg: pkg}
			mode := ""
			for i, w := range f {
				switch {
				case i == 0:
					sp.Name = w
				case w == "props" || w == "kind":
					mode = w
				case mode == "props":
					sp.Props = append(sp.Props, w)
				case mode == "kind":
					sp.Kind = w
				}
			}
			cs.RxpWithins = append(cs.RxpWithins, sp)
			cur = nil
			continue
		}
		if word == "rxp" {
			// rxp NAME props C01 regexp VAR language: W
			k := strings.Index(rest, "language:")
			if k < 0 {
				return fmt.Errorf("%s: rxp needs 'language:'", where)
			}
			f := strings.Fields(rest[:k])
			sp := &RxpSpec{Language: strings.TrimSpace(rest[k+len("language:"):]), File: where, Pkg: pkg}
			mode := ""
			for i, w := range f {
				switch {
				case i == 0:
					sp.Name = w
				case w == "props" || w == "regexp":
					mode = w
				case mode == "props":
					sp.Props = append(sp.Props, w)
				case mode == "regexp":
					sp.Global = pkg + "." + w
				}
			}
			cs.Rxps = append(cs.Rxps, sp)
			cur = nil
			continue
		}
		if word == "fieldinv" {
			// fieldinv C14 C03: Type.field, Type.field
			k := strings.Index(rest, ":")
			if k < 0 {
				return fmt.Errorf("%s: fieldinv needs 'PROPS: Type.field, ...'", where)
			}
			props := strings.Fields(rest[:k])
			for _, f := range strings.Split(rest[k+1:], ",") {
				if f = strings.TrimSpace(f); f != "" {
					cs.FieldInvs = append(cs.FieldInvs, &FieldInv{Key: "H." + pkg + "." + f, Props: props, File: where})
				}
			}
			cur = nil
			continue
		}
		if word == "sweep" {
			// sweep C14: Recv.Method, Func, ...   (zero-annotation safety sweep)
			k := strings.Index(rest, ":")
			if k < 0 {
				return fmt.Errorf("%s: sweep needs 'PROPS: funcs'", where)
			}
			props := strings.Fields(rest[:k])
			for _, f := range strings.Split(rest[k+1:], ",") {
				f = strings.TrimSpace(f)
				if f == "" {
					continue
				}
				key := f
				if !strings.HasPrefix(f, pkg+".") {
					key = pkg + "." + f
				}
				cs.Sweeps = append(cs.Sweeps, SweepEntry{Key: key, Props: props, File: where})
			}
			cur = nil
			continue
		}
		if word == "package-state" {
			// package-state props C19 [allows a, b]
			ps := &PkgStateSpec{Pkg: pkg, File: where}
			f := strings.Fields(rest)
			mode := ""
			for _, w := range f {
				switch w {
				case "props", "allows":
					mode = w
				default:
					w = strings.Trim(w, ",")
					if mode == "props" {
						ps.Props = append(ps.Props, w)
					} else if mode == "allows" && w != "" {
						ps.Allows = append(ps.Allows, w)
					}
				}
			}
			cs.PkgStates = append(cs.PkgStates, ps)
			continue
		}
		if word == "fieldgroup" {
			k := strings.Index(rest, "=")
			if k < 0 {
				return fmt.Errorf("%s: fieldgroup needs =", where)
			}
			name := strings.TrimSpace(rest[:k])
			for _, f := range strings.Split(rest[k+1:], ",") {
				if f = strings.TrimSpace(f); f != "" {
					cs.FieldGroups[name] = append(cs.FieldGroups[name], f)
				}
			}
			continue
		}
		if curFrame != nil && cur == nil {
			handled := true
			switch word {
			case "props":
				curFrame.Props = append(curFrame.Props, strings.Fields(rest)...)
			case "allows":
				for _, f := range strings.Split(rest, ",") {
					if f = strings.TrimSpace(f); f != "" {
						curFrame.Allows = append(curFrame.Allows, f)
					}
				}
			case "allows-global":
				for _, f := range strings.Split(rest, ",") {
					if f = strings.TrimSpace(f); f != "" {
						curFrame.AllowGlobals = append(curFrame.AllowGlobals, f)
					}
				}
			case "tier":
				curFrame.Thorough = strings.TrimSpace(rest) == "thorough"
			case "denies":
				for _, f := range strings.Split(rest, ",") {
					if f = strings.TrimSpace(f); f != "" {
						curFrame.Denies = append(curFrame.Denies, f)
					}
				}
			case "result-fresh":
				for _, f := range strings.Split(rest, ",") {
					if f = strings.TrimSpace(f); f != "" {
						curFrame.ResultFresh = append(curFrame.ResultFresh, f)
					}
				}
			case "no-globals":
				curFrame.NoGlobals = true
			case "no-unsync":
				curFrame.NoUnsync = true
			case "closures":
				curFrame.Closures = true
			case "no-unknown-calls":
				curFrame.NoUnknown = true
			default:
				handled = false
			}
			if handled {
				continue
			}
			curFrame = nil
		}
		if cur != nil && strings.Contains(rest, "counttrue(") {
			cur.UsesCount = true
		}
		switch word {
		case "spec", "ghost":
			w2, rest2 := splitWord(rest)
			if word == "ghost" && w2 != "func" {
				// ghost variable inside a function contract: ghost name type [= init]
				if cur == nil {
					return fmt.Errorf("%s: ghost variable outside func", where)
				}
				g := GhostVar{Name: w2}
				typ := rest2
				if k := strings.Index(rest2, "="); k >= 0 {
					typ = strings.TrimSpace(rest2[:k])
					c, err := parseClause(rest2[k+1:], where)
					if err != nil {
						return err
					}
					g.Init = &c
				}
				g.Type = typ
				cur.Ghosts = append(cur.Ghosts, g)
				continue
			}
			if w2 != "func" {
				return fmt.Errorf("%s: expected 'func' after %s", where, word)
			}
			sf, err := parseSpecFunc(rest2, where)
			if err != nil {
				return err
			}
			sf.File = file
			if _, dup := cs.Specs[sf.Name]; dup {
				return fmt.Errorf("%s: duplicate spec func %s", where, sf.Name)
			}
			cs.Specs[sf.Name] = sf
			cur = nil
		case "const":
			k := strings.Index(rest, "=")
			if k < 0 {
				return fmt.Errorf("%s: const needs =", where)
			}
			c, err := parseClause(rest[k+1:], where)
			if err != nil {
				return err
			}
			cs.Consts[strings.TrimSpace(rest[:k])] = &c
			cur = nil
		case "lemma", "axiom":
			// lemma NAME [props C01 C02]: EXPR
			k := strings.Index(rest, ":")
			if k < 0 {
				return fmt.Errorf("%s: lemma needs ':'", where)
			}
			head := strings.Fields(rest[:k])
			lm := &Lemma{Name: head[0], Axiom: word == "axiom", File: file}
			for i := 1; i < len(head); i++ {
				if head[i] != "props" {
					lm.Props = append(lm.Props, head[i])
				}
			}
			c, err := parseClause(rest[k+1:], where)
			if err != nil {
				return err
			}
			lm.Body = c
			cs.Lemmas = append(cs.Lemmas, lm)
			cur = nil
		case "func", "extern", "iface":
			key := rest
			var params []string
			if k := strings.Index(rest, "("); k >= 0 {
				key = strings.TrimSpace(rest[:k])
				ps := strings.TrimSuffix(strings.TrimSpace(rest[k+1:]), ")")
				for _, p := range strings.Split(ps, ",") {
					if p = strings.TrimSpace(p); p != "" {
						params = append(params, p)
					}
				}
			}
			if word != "extern" && !strings.Contains(key, "/") && pkg != "" {
				key = pkg + "." + key
			}
			cur = &Contract{Key: key, Pkg: pkg, Extern: word == "extern", Params: params, Loops: map[int]*LoopSpec{}, File: where}
			if word == "iface" {
				cs.IfaceContracts[key] = cur
			} else {
				// several contracts per extern key are allowed when distinguished by format
				if old, dup := cs.Funcs[key]; dup && !old.Extern {
					// a second contract is allowed when one of the two is scoped
					// (`only PROPS`); sorted out in applySweeps
					cs.Seconds = append(cs.Seconds, cur)
					continue
				}
				if _, dup := cs.Funcs[key]; !dup {
					cs.Funcs[key] = cur
				} else {
					cs.Formats[key] = append(cs.Formats[key], cur)
				}
			}
		default:
			if cur == nil {
				return fmt.Errorf("%s: directive %q outside a func contract", where, word)
			}
			switch word {
			case "props":
				cur.Props = append(cur.Props, strings.Fields(rest)...)
			case "requires", "ensures":
				c, err := parseClause(rest, where)
				if err != nil {
					return err
				}
				if word == "requires" {
					cur.Requires = append(cur.Requires, c)
				} else {
					cur.Ensures = append(cur.Ensures, c)
				}
			case "let":
				k := strings.Index(rest, "=")
				c, err := parseClause(rest[k+1:], where)
				if err != nil {
					return err
				}
				c.Label = strings.TrimSpace(rest[:k])
				cur.Lets = append(cur.Lets, c)
			case "assigns":
				cur.AssignsSet = true
				for _, a := range splitTopLevel(rest, ',') {
					if a = strings.TrimSpace(a); a != "" {
						if k := strings.Index(a, "["); k > 0 && strings.HasSuffix(a, "]") {
							c, err := parseClause(a[k+1:len(a)-1], where)
							if err != nil {
								return err
							}
							if cur.AssignRows == nil {
								cur.AssignRows = map[string][]Clause{}
							}
							cur.AssignRows[a[:k]] = append(cur.AssignRows[a[:k]], c)
							continue
						}
						cur.Assigns = append(cur.Assigns, a)
					}
				}
			case "pure":
				cur.Pure = true
				cur.AssignsSet = true
				cur.Assigns = []string{"nothing"}
			case "only":
				cur.OnlyProps = append(cur.OnlyProps, strings.Fields(rest)...)
			case "opaque":
				// opaque Type.*, pkg.Func: callees not to be inlined while this
				// function is verified (result unconstrained, no visible effect)
				for _, pat := range strings.Split(rest, ",") {
					if pat = strings.TrimSpace(pat); pat != "" {
						cur.Opaque = append(cur.Opaque, pat)
					}
				}
			case "recovers":
				// the function installs a deferred recover() before it does
				// anything else: no panic of its body or callees leaves it
				cur.Recovers = true
			case "trustframe":
				// the assigns clause is used at call sites but not checked here
				cur.TrustFrame = true
			case "closed":
				cur.Closed = true
			case "inline":
				cur.Inline = true
			case "trusted":
				cur.Trusted = true
			case "nopaniccheck":
				cur.NoPanicCheck = true
			case "safety":
				// safety [PROPS]: panic-freedom obligations (only while one of
				// PROPS is checked, when given)
				cur.Safety = true
				cur.SafetyProps = append(cur.SafetyProps, strings.Fields(rest)...)
			case "allowpanic":
				// allowpanic "text" [when EXPR]
				ap := AllowPanic{}
				r := strings.TrimSpace(rest)
				if !strings.HasPrefix(r, "\"") {
					return fmt.Errorf("%s: allowpanic needs a quoted text", where)
				}
				end := strings.Index(r[1:], "\"")
				if end < 0 {
					return fmt.Errorf("%s: allowpanic: unterminated text", where)
				}
				ap.Text = r[1 : 1+end]
				tail := strings.TrimSpace(r[2+end:])
				if strings.HasPrefix(tail, "when ") {
					cl, err := parseClause(tail[5:], where)
					if err != nil {
						return err
					}
					ap.When = &cl
				}
				cur.AllowPanics = append(cur.AllowPanics, ap)
			case "format":
				s, err := strconv.Unquote(strings.TrimSpace(rest))
				if err != nil {
					return fmt.Errorf("%s: bad format literal: %v", where, err)
				}
				cur.Format = s
				cur.HasFormat = true
			case "loop":
				ordS, rest2 := splitWord(rest)
				ord, err := strconv.Atoi(ordS)
				if err != nil {
					return fmt.Errorf("%s: loop ordinal: %v", where, err)
				}
				ls := cur.Loops[ord]
				if ls == nil {
					ls = &LoopSpec{Ord: ord}
					cur.Loops[ord] = ls
				}
				kind, body := splitWord(rest2)
				if kind == "nobreak" {
					ls.NoBreak = true
					break
				}
				c, err := parseClause(body, where)
				if err != nil {
					return err
				}
				switch kind {
				case "invariant":
					ls.Invariants = append(ls.Invariants, c)
				case "decreases":
					ls.Decreases = &c
				case "iter":
					ls.Iters = append(ls.Iters, c)
				default:
					return fmt.Errorf("%s: loop clause %q", where, kind)
				}
			case "known":
				// known C06 label when EXPR : text
				f := strings.Fields(rest)
				if len(f) < 2 {
					return fmt.Errorf("%s: known needs property and label", where)
				}
				ks := KnownSpec{Prop: f[0], Label: f[1]}
				tail := strings.TrimSpace(strings.TrimPrefix(strings.TrimSpace(strings.TrimPrefix(rest, f[0])), f[1]))
				tail = strings.TrimSpace(tail)
				if strings.HasPrefix(tail, "when ") {
					tail = tail[5:]
					txt := ""
					if k := strings.LastIndex(tail, " :: "); k >= 0 {
						txt = strings.TrimSpace(tail[k+4:])
						tail = tail[:k]
					}
					c, err := parseClause(tail, where)
					if err != nil {
						return err
					}
					ks.When = &c
					ks.Text = txt
				}
				cur.Knowns = append(cur.Knowns, ks)
			case "replay":
				cur.Replay = rest
			case "oncall", "deepcall":
				// oncall Callee[#n] [when EXPR] do a = e; b = e
				// deepcall: the rule also fires for calls made by inlined callees
				// (its expressions then see the arguments, the ghosts and the
				// parameters of the function under contract, not the callee's locals)
				oc := OnCall{Deep: word == "deepcall"}
				k := strings.Index(rest, " do ")
				isCheck := false
				isAssume := false
				if k < 0 {
					if k = strings.Index(rest, " check "); k >= 0 {
						isCheck = true
					} else if k = strings.Index(rest, " assume "); k >= 0 {
						isAssume = true
					}
				}
				if k < 0 {
					return fmt.Errorf("%s: oncall needs 'do' or 'check'", where)
				}
				head := strings.TrimSpace(rest[:k])
				body := rest[k+4:]
				if isCheck {
					body = rest[k+7:]
				}
				if isAssume {
					body = rest[k+8:]
				}
				if w := strings.Index(head, " when "); w >= 0 {
					c, err := parseClause(head[w+6:], where)
					if err != nil {
						return err
					}
					oc.When = &c
					head = strings.TrimSpace(head[:w])
				}
				if h := strings.Index(head, "#"); h >= 0 {
					oc.Ord, _ = strconv.Atoi(head[h+1:])
					head = head[:h]
				}
				if e := strings.Index(head, " except "); e >= 0 {
					for _, n := range strings.Split(head[e+8:], ",") {
						if n = strings.TrimSpace(n); n != "" {
							oc.Except = append(oc.Except, n)
						}
					}
					head = strings.TrimSpace(head[:e])
				}
				oc.Callee = head
				if isCheck || isAssume {
					c, err := parseClause(body, where)
					if err != nil {
						return err
					}
					if isCheck {
						oc.Checks = append(oc.Checks, c)
					} else {
						oc.Assumes = append(oc.Assumes, c)
					}
					cur.OnCalls = append(cur.OnCalls, oc)
					break
				}
				for _, as := range strings.Split(body, ";") {
					e := strings.Index(as, "=")
					if e < 0 {
						continue
					}
					c, err := parseClause(as[e+1:], where)
					if err != nil {
						return err
					}
					lhs := strings.TrimSpace(as[:e])
					if b := strings.Index(lhs, "["); b > 0 && strings.HasSuffix(lhs, "]") {
						// g[i] = e  is  g = store(g, i, e)
						ic, err := parseClause(lhs[b+1:len(lhs)-1], where)
						if err != nil {
							return err
						}
						c.Index = ic.Expr
						lhs = lhs[:b]
					}
					oc.Assigns = append(oc.Assigns, struct {
						Name string
						Expr Clause
					}{lhs, c})
				}
				cur.OnCalls = append(cur.OnCalls, oc)
			default:
				return fmt.Errorf("%s: unknown directive %q", where, word)
			}
		}
	}
	return nil
}

func splitWord(s string) (string, string) {
	s = strings.TrimSpace(s)
	k := strings.IndexAny(s, " \t")
	if k < 0 {
		return s, ""
	}
	return s[:k], strings.TrimSpace(s[k+1:])
}

// parseSpecFunc parses: NAME(a int, b real) real [= EXPR]
func parseSpecFunc(s, where string) (*SpecFunc, error) {
	k := strings.Index(s, "(")
	if k < 0 {
		return nil, fmt.Errorf("%s: spec func needs (", where)
	}
	sf := &SpecFunc{Name: strings.TrimSpace(s[:k])}
	d := 0
	j := k
	for ; j < len(s); j++ {
		if s[j] == '(' {
			d++
		} else if s[j] == ')' {
			d--
			if d == 0 {
				break
			}
		}
	}
	if j >= len(s) {
		return nil, fmt.Errorf("%s: unbalanced parens", where)
	}
	ps := s[k+1 : j]
	var pending []string
	for _, p := range strings.Split(ps, ",") {
		p = strings.TrimSpace(p)
		if p == "" {
			continue
		}
		f := strings.Fields(p)
		if len(f) == 1 {
			pending = append(pending, f[0])
			continue
		}
		for _, n := range pending {
			sf.Params = append(sf.Params, SpecParam{n, f[1]})
		}
		pending = nil
		sf.Params = append(sf.Params, SpecParam{f[0], f[1]})
	}
	if len(pending) > 0 {
		return nil, fmt.Errorf("%s: parameter without type", where)
	}
	rest := strings.TrimSpace(s[j+1:])
	if e := strings.Index(rest, "="); e >= 0 {
		sf.Result = strings.TrimSpace(rest[:e])
		c, err := parseClause(rest[e+1:], where)
		if err != nil {
			return nil, err
		}
		sf.Body = &c
	} else {
		sf.Result = rest
	}
	if sf.Result == "" {
		return nil, fmt.Errorf("%s: spec func needs result type", where)
	}
	return sf, nil
}

func specSort(t string) Sort {
	switch t {
	case "int", "ref", "time", "Ref":
		return SInt
	case "bool":
		return SBool
	case "real", "float64":
		return SReal
	case "string", "str":
		return SStr
	case "iface":
		return SIface
	case "slice":
		return SSlice
	}
	if strings.HasPrefix(t, "(Array") {
		return Sort(t)
	}
	if strings.HasPrefix(t, "map[") {
		// ghost maps: map[int]int, map[int]bool, ...
		if k := strings.Index(t, "]"); k > 0 {
			return ArraySort(specSort(t[4:k]), specSort(t[k+1:]))
		}
	}
	return SInt
}

// splitTopLevel splits on sep outside of brackets and parentheses.
func splitTopLevel(s string, sep rune) []string {
	var out []string
	depth, start := 0, 0
	for i, r := range s {
		switch r {
		case '(', '[':
			depth++
		case ')', ']':
			depth--
		default:
			if r == sep && depth == 0 {
				out = append(out, s[start:i])
				start = i + 1
			}
		}
	}
	return append(out, s[start:])
}

// applySweeps turns sweep entries into safety-only contracts. A function that
// already has a written contract keeps it and gains the property and the
// safety obligations.
func (cs *ContractSet) applySweeps() {
	// property-scoped contracts live beside the ordinary ones
	if cs.Scoped == nil {
		cs.Scoped = map[string]*Contract{}
	}
	for k, c := range cs.Funcs {
		if len(c.OnlyProps) > 0 {
			cs.Scoped[k] = c
			delete(cs.Funcs, k)
		}
	}
	for _, c := range cs.Seconds {
		switch {
		case len(c.OnlyProps) > 0 && cs.Scoped[c.Key] == nil:
			cs.Scoped[c.Key] = c
		case len(c.OnlyProps) == 0 && cs.Funcs[c.Key] == nil:
			cs.Funcs[c.Key] = c
		default:
			cs.LoadErrors = append(cs.LoadErrors, fmt.Sprintf("%s: duplicate contract for %s", c.File, c.Key))
		}
	}
	for _, sw := range cs.Sweeps {
		if c, ok := cs.Funcs[sw.Key]; ok {
			if c.Trusted || c.Extern {
				continue
			}
			for _, p := range sw.Props {
				if !hasProp(c.Props, p) {
					c.Props = append(c.Props, p)
				}
			}
			if !c.Safety {
				// safety obligations only while the sweep's properties are checked
				c.SafetyProps = append(c.SafetyProps, sw.Props...)
			}
			c.Safety = true
			continue
		}
		cs.Funcs[sw.Key] = &Contract{Key: sw.Key, Pkg: strings.SplitN(sw.Key, ".", 2)[0], Props: append([]string{}, sw.Props...),
			Safety: true, Sweep: true, File: sw.File, Loops: map[int]*LoopSpec{}}
	}
}
