package main

// Regex-capture obligations: `//@ rxp NAME props Cxx regexp VAR language: W`.

import (
	"fmt"
	"os"
	"strconv"
	"path/filepath"
	"strings"
	"time"

	"golang.org/x/tools/go/ssa"
)

func (ctx *checkCtx) runRxp() *JobResult {
	var specs []*RxpSpec
	for _, s := range ctx.cs.Rxps {
		if hasProp(s.Props, ctx.prop) {
			specs = append(specs, s)
		}
	}
	if len(specs) == 0 {
		return nil
	}
	jr := &JobResult{}
	ex := NewExec(ctx.ld, ctx.cs)
	ex.analyseGlobals()
	for _, sp := range specs {
		name := "rxp:" + sp.Name
		rec := &ObRecord{Name: name, Kind: "rxp", Fn: sp.Global, Backend: "rxp", Decisive: true}
		jr.Records = append(jr.Records, rec)
		jr.Functions = append(jr.Functions, sp.Global)
		var g *ssa.Global
		for _, p := range ctx.ld.SPkgs {
			if p == nil || p.Pkg.Name() != sp.Pkg {
				continue
			}
			if m, ok := p.Members[strings.TrimPrefix(sp.Global, sp.Pkg+".")].(*ssa.Global); ok {
				g = m
			}
		}
		if g == nil {
			rec.Status, rec.Detail = "refuted", "the regexp variable "+sp.Global+" no longer exists"
			continue
		}
		pat, ok := regexpPatternOf(g)
		if !ok {
			pat, ok = ex.foldedRegexpPattern(g)
		}
		if !ok {
			// not a MustCompile of constants: ask the package itself (its
			// initialiser runs in a test binary and prints the pattern)
			pat, ok = runtimeRegexpPattern(ctx, sp)
		}
		gi := ex.initOnly[g]
		if !ok || (gi != nil && !gi.ok && gi.why != "" && !strings.Contains(gi.why, "initialiser")) {
			rec.Status, rec.Detail = "refuted", "the pattern of "+sp.Global+" can no longer be read from a regexp.MustCompile of constants in the package initialiser (or the variable is reassigned)"
			continue
		}
		t0 := time.Now()
		r := decideRxp(pat, sp.Language)
		rec.Secs = time.Since(t0).Seconds()
		jr.Assumed = append(jr.Assumed, fmt.Sprintf("regex decider: pattern %q of %s compiled with regexp/syntax; VM checked against package regexp on 4000 words; %d product states over %d rune classes", pat, sp.Global, r.States, r.Classes))
		switch {
		case r.Err != "":
			rec.Status = "error"
			rec.Detail = r.Err
			jr.Errors = append(jr.Errors, name+": "+r.Err)
		case r.OK:
			rec.Status = "proved"
		default:
			rec.Status = "refuted"
			rec.Detail = fmt.Sprintf("word %q: %s; pattern %q", r.Word, r.Reason, pat)
			rec.Model = map[string]string{"word": fmt.Sprintf("%q", r.Word), "reason": r.Reason}
			path := ctx.writeRxpReplay(sp, r)
			rec.Replay = path
			if path != "" {
				out, outcome := runReplay(path, rxpPkgDir(ctx, sp))
				_ = out
				rec.ReplayOutcome = outcome
			}
		}
	}
	return jr
}

// writeRxpReplay: a test that runs the real regexp variable on the word and
// compares its groups with the marked segments.
func (ctx *checkCtx) writeRxpReplay(sp *RxpSpec, r *RxpResult) string {
	dir := filepath.Join(outDir(), "replays", ctx.prop)
	os.MkdirAll(dir, 0755)
	path := filepath.Join(dir, smtIdent("rxp_"+sp.Name)+".go")
	pkgDir := "."
	for _, p := range ctx.ld.Pkgs {
		if p.Name == sp.Pkg && len(p.GoFiles) > 0 {
			rel, err := filepath.Rel(ctx.ld.Dir, filepath.Dir(p.GoFiles[0]))
			if err == nil {
				pkgDir = rel
			}
		}
	}
	var exp []string
	for _, e := range r.Expected {
		exp = append(exp, fmt.Sprintf("%q", e))
	}
	src := fmt.Sprintf(`// gv-replay-dir: %s
// Replay of the failed obligation rxp:%s (property %s).
// %s
package %s

import (
	"fmt"
	"testing"
)

func TestGvReplay(t *testing.T) {
	word := %q
	expected := []string{%s} // the segments the language marks, by group number
	got := %s.FindStringSubmatch(word)
	if got == nil {
		fmt.Printf("GV-REPLAY: VIOLATED %%q is a sentence of the specified language but the pattern does not match it\n", word)
		return
	}
	for k := 1; k < len(expected) && k < len(got); k++ {
		if got[k] != expected[k] {
			fmt.Printf("GV-REPLAY: VIOLATED on %%q group %%d is %%q, the marked segment is %%q\n", word, k, got[k], expected[k])
			return
		}
	}
	fmt.Println("GV-REPLAY: HOLDS", got)
}
`, pkgDir, sp.Name, ctx.prop, strings.ReplaceAll(r.Reason, "\n", " "), sp.Pkg, r.Word, strings.Join(exp, ", "), strings.TrimPrefix(sp.Global, sp.Pkg+"."))
	if err := os.WriteFile(path, []byte(src), 0644); err != nil {
		return ""
	}
	return path
}

func rxpPkgDir(ctx *checkCtx, sp *RxpSpec) string {
	for _, p := range ctx.ld.Pkgs {
		if p.Name == sp.Pkg && len(p.GoFiles) > 0 {
			if rel, err := filepath.Rel(ctx.ld.Dir, filepath.Dir(p.GoFiles[0])); err == nil {
				return rel
			}
		}
	}
	return "."
}

// runtimeRegexpPattern runs the package's own initialiser and prints
// VAR.String(): the pattern the code really compiles.
func runtimeRegexpPattern(ctx *checkCtx, sp *RxpSpec) (string, bool) {
	dir := scratch()
	path := filepath.Join(dir, smtIdent("rxpat_"+sp.Name)+"_test.go")
	v := strings.TrimPrefix(sp.Global, sp.Pkg+".")
	src := fmt.Sprintf("package %s\n\nimport (\n\t\"fmt\"\n\t\"testing\"\n)\n\nfunc TestGvReplay(t *testing.T) {\n\tfmt.Printf(\"GV-REPLAY: HOLDS GV-PATTERN:%%q\\n\", %s.String())\n}\n", sp.Pkg, v)
	if err := os.WriteFile(path, []byte(src), 0644); err != nil {
		return "", false
	}
	defer os.Remove(path)
	out, _ := runReplay(path, rxpPkgDir(ctx, sp))
	k := strings.Index(out, "GV-PATTERN:")
	if k < 0 {
		return "", false
	}
	rest := out[k+len("GV-PATTERN:"):]
	if e := strings.Index(rest, "\n"); e >= 0 {
		rest = rest[:e]
	}
	pat, err := strconv.Unquote(strings.TrimSpace(rest))
	if err != nil {
		return "", false
	}
	return pat, true
}
