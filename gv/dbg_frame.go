package main

import (
	"fmt"
	"os"
)

func init() {
	if os.Getenv("GV_FRAME_ORGS") == "" {
		return
	}
	frameDebugHook = func(st *fstate) {
		if funcKey(st.fn) != os.Getenv("GV_FRAME_ORGS") {
			return
		}
		fmt.Println("  FN", st.fn.String(), "synthetic:", st.fn.Synthetic, "blocks", len(st.fn.Blocks))
		for v, o := range st.orgs {
			fmt.Printf("  org %s = %s\n", v.Name(), sumOf(o).String())
		}
	}
}
