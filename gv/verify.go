package main

import (
	"fmt"
	"go/token"
	"go/types"
	"sort"
	"strings"

	"golang.org/x/tools/go/ssa"
)

// FuncResult is everything one function-under-contract produced.
type FuncResult struct {
	Key         string
	Contract    *Contract
	Script      *Script
	Exec        *Exec
	Obligations []*Obligation
	Covers      []*Obligation
	Unsupported []string
	Assumed     []string
	Inlined     []string
	Havocs      []string
	Err         string
	Stale       []string // identifiers named by the contract that the function does not have
}

func flattenInputs(prefix string, v Val, out *[]string) {
	switch x := v.(type) {
	case SV:
		if !strings.Contains(x.T.S, "(") {
			*out = append(*out, x.T.S)
		}
	case StructV:
		for _, f := range x.F {
			flattenInputs(prefix, f, out)
		}
	case TupleV:
		for _, f := range x.F {
			flattenInputs(prefix, f, out)
		}
	case ArrV:
		for _, f := range x.Elems {
			flattenInputs(prefix, f, out)
		}
	}
}

// paramVal creates named symbolic inputs: in.<param>[.<field>...]
func (ex *Exec) paramVal(t types.Type, name string) Val {
	if s, ok := scalarSort(t); ok {
		c := ex.sc.Declare(smtIdent("in."+name), s)
		ex.assumeTypeInv(t, c, tTrue)
		return SV{c}
	}
	switch u := t.Underlying().(type) {
	case *types.Struct:
		fs := make([]Val, u.NumFields())
		for i := range fs {
			fs[i] = ex.paramVal(u.Field(i).Type(), name+"."+u.Field(i).Name())
		}
		return StructV{Typ: t, F: fs}
	}
	return ex.freshVal(t, "in."+name)
}

func (ex *Exec) assumeRefsExist(v Val, t types.Type, alloc Term) {
	switch x := v.(type) {
	case SV:
		switch t.Underlying().(type) {
		case *types.Pointer, *types.Map, *types.Chan:
			ex.sc.Assert(app(SBool, "<", x.T, alloc))
		case *types.Slice:
			ex.sc.Assert(app(SBool, "<", app(SInt, "sl.arr", x.T), alloc))
		}
	case StructV:
		if st, ok := t.Underlying().(*types.Struct); ok {
			for i, f := range x.F {
				ex.assumeRefsExist(f, st.Field(i).Type(), alloc)
			}
		}
	}
}

func VerifyFunction(ld *Loaded, cs *ContractSet, fn *ssa.Function, ct *Contract) (res *FuncResult) {
	ex := NewExec(ld, cs)
	key := funcKey(fn)
	res = &FuncResult{Key: key, Contract: ct, Exec: ex, Script: ex.sc}
	defer func() {
		if r := recover(); r != nil {
			res.Err = fmt.Sprintf("engine panic in %s: %v", key, r)
			if debugPanics {
				panic(r)
			}
		}
	}()
	ex.top = fn
	ex.topKey = key
	ex.contract = ct
	ex.props = ct.Props
	ex.checkPanics = ct.Safety && !ct.NoPanicCheck
	if len(ct.SafetyProps) > 0 && currentProp != "" && !hasProp(ct.SafetyProps, currentProp) {
		ex.checkPanics = false
	}
	if len(fn.Blocks) == 0 {
		res.Err = "function has no body: " + key
		return res
	}
	alloc0 := ex.sc.Declare("alloc0", SInt)
	ex.sc.Assert(app(SBool, ">", alloc0, IntLit(0)))
	st := newState(alloc0)
	fr := &Frame{fn: fn, regs: map[ssa.Value]Val{}, label: key, params: map[string]Val{}, ptypes: map[string]types.Type{}, isTop: true,
		debugVals: map[string]ssa.Value{}}
	// named locals are known before they are assigned (contract clauses at
	// early back edges may mention them: any value)
	for _, b := range fn.Blocks {
		for _, in := range b.Instrs {
			if d, ok := in.(*ssa.DebugRef); ok && !d.IsAddr {
				if obj := d.Object(); obj != nil && obj.Pkg() != nil && obj.Parent() == obj.Pkg().Scope() {
					continue // a package-level name, not a local
				}
				if idn := identName(d); idn != "" {
					if _, dup := fr.debugVals[idn]; !dup {
						fr.debugVals[idn] = d.X
					}
				}
			}
		}
	}
	for _, p := range fn.Params {
		v := ex.paramVal(p.Type(), p.Name())
		ex.assumeRefsExist(v, p.Type(), alloc0)
		fr.regs[p] = v
		fr.params[p.Name()] = v
		fr.ptypes[p.Name()] = p.Type()
		flattenInputs(p.Name(), v, &ex.inputs)
	}
	for _, fv := range fn.FreeVars {
		v := ex.paramVal(fv.Type(), "free."+fv.Name())
		ex.assumeRefsExist(v, fv.Type(), alloc0)
		fr.regs[fv] = v
		fr.params[fv.Name()] = v
		fr.ptypes[fv.Name()] = fv.Type()
	}
	fr.entry = st.clone()
	// ghost variables
	env0 := ex.newEnv(fr, st, fr.entry)
	for n, v := range fr.params {
		env0.vars[n] = TV{v, fr.ptypes[n]}
		env0.vars[n+"0"] = TV{v, fr.ptypes[n]}
	}
	for _, g := range ct.Ghosts {
		var v Val
		if g.Init != nil {
			v = ex.eval(g.Init.Expr, env0).V
		} else {
			v = SV{ex.sc.Declare(smtIdent("ghost."+g.Name), specSort(g.Type))}
		}
		st.ghost[g.Name] = v
	}
	for _, l := range ct.Lets {
		v := ex.eval(l.Expr, env0)
		env0.vars[l.Label] = v
		fr.params["let."+l.Label] = v.V
	}
	for _, r := range ct.Requires {
		ex.sc.Assert(ex.evalBool(r, env0))
	}
	if (ct.Sweep || len(ct.SafetyProps) > 0) && fn.Signature.Recv() != nil && len(fn.Params) > 0 {
		// sweeps take the method as called on an existing object; nil receivers
		// are checked where a caller under verification inlines the method
		if _, isPtr := fn.Params[0].Type().Underlying().(*types.Pointer); isPtr {
			if sv, ok := fr.regs[fn.Params[0]].(SV); ok {
				ex.sc.Assert(Not(Eq(sv.T, IntLit(0))))
				ex.assumedUsed["sweep: receiver of "+key+" is not nil"] = true
			}
		}
	}
	if ct.Recovers {
		fr.blockPC = tTrue
		ok := tFalse
		if recoversFirst(fn) {
			ok = tTrue
		}
		// (a named constant, so that the obligation is recorded even when it holds)
		g := ex.sc.Fresh("recovers", SBool)
		ex.sc.Assert(Eq(g, ok))
		ex.oblige(fr, "recovers", "a deferred recover() is installed before any other call", tTrue, g, fn.Pos())
	}
	fr.entry = st.clone()
	fr.blockPC = tTrue
	ex.topFrame = fr
	ex.stack = []*ssa.Function{fn}
	ex.runBody(fr, st, tTrue)

	// returns
	if len(fr.rets) > 0 {
		var ins []incoming
		var pcs []Term
		for _, r := range fr.rets {
			ins = append(ins, incoming{r.pc, r.st})
			pcs = append(pcs, r.pc)
		}
		final := ex.mergeStates(ins)
		pcRet := ex.sc.Name("pc.return", Or(pcs...))
		var result Val
		for i := len(fr.rets) - 1; i >= 0; i-- {
			r := fr.rets[i]
			var v Val
			switch len(r.vals) {
			case 0:
			case 1:
				v = r.vals[0]
			default:
				v = TupleV{F: r.vals}
			}
			if result == nil {
				result = v
			} else {
				result = ex.mergeVal(r.pc, v, result)
			}
		}
		result = ex.nameVal("result", result)
		env := ex.newEnv(fr, final, fr.entry)
		for n, v := range fr.params {
			if strings.HasPrefix(n, "let.") {
				env.vars[n[4:]] = TV{v, nil}
				continue
			}
			env.vars[n] = TV{v, fr.ptypes[n]}
			env.vars[n+"0"] = TV{v, fr.ptypes[n]}
		}
		for g, v := range final.ghost {
			env.vars[g] = TV{v, nil}
		}
		if result != nil {
			var rt types.Type
			rs := fn.Signature.Results()
			if rs.Len() == 1 {
				rt = rs.At(0).Type()
			} else if rs.Len() > 1 {
				rt = rs
			}
			ex.bindResult(env, result, rt)
		}
		fr.blockPC = pcRet
		fr.curBlock = nil
		for i, e := range ct.Ensures {
			g := ex.evalBool(e, env)
			ex.obligeEnv(fr, "ensures", clauseName(e, i), pcRet, g, fn.Pos(), env)
		}
		if ct.AssignsSet && !ct.TrustFrame {
			ex.checkAssigns(fr, ct, final, pcRet)
		}
		if ct.TrustFrame {
			ex.assumedUsed["frame of "+key+" (assigns clause trusted, not checked)"] = true
		}
		ex.checkInvAllocs(fr, final, pcRet, 0, "return")
		// reachability cover: the exit must be reachable under the assumptions
		cov := &Obligation{Name: key + "#cover:exit-reachable", Kind: "cover", Fn: key, Props: ct.Props, Goal: tTrue, PC: pcRet, Cover: true, Inputs: ex.inputs}
		ex.sc.AddObligation(cov)
		res.Covers = append(res.Covers, cov)
		ex.sc.Obls = ex.sc.Obls[:len(ex.sc.Obls)-1]
	} else {
		res.Err = "no reachable return in " + key
	}
	ex.sc.Prelude = append(ex.stringPrelude(), ex.sc.Prelude...)
	ex.sc.Prelude = append(ex.sc.Prelude, uninterpDecls...)
	if ex.useCount() {
		ex.sc.Prelude = append(ex.sc.Prelude, countPrelude)
		ex.assumedUsed["counting theory for []bool (cnt.bool: bounds, zero on a fresh array, +-1 at a store)"] = true
	}
	res.Obligations = ex.sc.Obls
	res.Unsupported = sortedKeys(ex.unsupported)
	res.Assumed = sortedKeys(ex.assumedUsed)
	res.Stale = sortedKeys(ex.staleIdents)
	res.Inlined = sortedKeys(ex.inlinedUsed)
	res.Havocs = sortedKeys(ex.havocCalls)
	if ex.sc.quantFresh > 0 {
		res.Unsupported = append(res.Unsupported, "fresh value created under a quantifier")
	}
	return res
}

var debugPanics = false

var uninterpDecls = []string{
	"(declare-fun str.lt_ (Str Str) Bool)",
	"(declare-fun str.fromrune_ (Int) Str)",
	"(declare-fun bitand_ (Int Int) Int)",
	"(declare-fun bitor_ (Int Int) Int)",
	"(declare-fun bitxor_ (Int Int) Int)",
	"(declare-fun bitandnot_ (Int Int) Int)",
	"(declare-fun bitnot_ (Int) Int)",
	"(declare-fun shl_ (Int Int) Int)",
	"(declare-fun shr_ (Int Int) Int)",
}

func sortedKeys(m map[string]bool) []string {
	var ks []string
	for k := range m {
		ks = append(ks, k)
	}
	sort.Strings(ks)
	return ks
}

// checkAssigns: every heap array not named in `assigns` must be unchanged on
// pre-existing objects.
func (ex *Exec) checkAssigns(fr *Frame, ct *Contract, final *State, pc Term) {
	allowed := map[string]bool{}
	for _, a := range ct.Assigns {
		allowed[a] = true
	}
	if allowed["everything"] {
		return
	}
	var ks []string
	for k := range final.heap {
		ks = append(ks, k)
	}
	sort.Strings(ks)
	if _, epoch := final.heap["__epoch"]; epoch {
		ex.oblige(fr, "assigns", "heap-havocked-by-unknown-call", pc, tFalse, token.NoPos)
		return
	}
	for _, k := range ks {
		if strings.HasPrefix(k, "__") || allowed[k] {
			continue
		}
		var rowTerms []Term
		if rows := ct.AssignRows[k]; len(rows) > 0 {
			env := ex.entryEnv(fr)
			for _, rc := range rows {
				rowTerms = append(rowTerms, ex.term(ex.eval(rc.Expr, env).V, SInt))
			}
		}
		wild := false
		for a := range allowed {
			if strings.HasSuffix(a, "*") && strings.HasPrefix(k, strings.TrimSuffix(a, "*")) {
				wild = true
			}
		}
		if wild {
			continue
		}
		cur := final.heap[k]
		init, ok := ex.heapInits[k]
		if !ok {
			// never read before being written: compare against a declared initial
			init = ex.heapInit(k, cur.Sort)
		}
		if cur.S == init.S {
			continue
		}
		var g Term
		if strings.HasPrefix(k, "G.") {
			g = Eq(cur, init)
		} else {
			// unchanged on objects that existed at entry
			excl := ""
			for _, rt := range rowTerms {
				excl += fmt.Sprintf(" (not (= r!q %s))", rt.S)
			}
			g = T(SBool, fmt.Sprintf("(forall ((r!q Int)) (=> (and (< r!q alloc0)%s) (= (select %s r!q) (select %s r!q))))", excl, cur.S, init.S))
		}
		ex.oblige(fr, "assigns", k, pc, g, token.NoPos)
	}
}

// ---------------------------------------------------------------------------
// lemmas: closed formulas over spec functions

func VerifyLemma(ld *Loaded, cs *ContractSet, lm *Lemma) (res *FuncResult) {
	ex := NewExec(ld, cs)
	res = &FuncResult{Key: "lemma." + lm.Name, Exec: ex, Script: ex.sc, Contract: &Contract{Key: "lemma." + lm.Name, Props: lm.Props, File: lm.Body.Line}}
	defer func() {
		if r := recover(); r != nil {
			res.Err = fmt.Sprintf("engine panic in lemma %s: %v", lm.Name, r)
			if debugPanics {
				panic(r)
			}
		}
	}()
	ex.topKey = res.Key
	ex.props = lm.Props
	fr := &Frame{regs: map[ssa.Value]Val{}, label: res.Key, params: map[string]Val{}, ptypes: map[string]types.Type{}, isTop: true}
	// a package context for constants: use the root package's init
	for _, p := range ld.SPkgs {
		if p != nil && p.Pkg.Path() == repoModule {
			fr.fn = p.Func("init")
		}
	}
	st := newState(ex.sc.Declare("alloc0", SInt))
	env := ex.newEnv(fr, st, st)
	// universally quantified lemma variables: forall(...) at top level is
	// skolemised by the negation in the query, which gives models.
	body := lm.Body.Expr
	g, lenv := ex.skolemEval(body, env)
	fr.blockPC = tTrue
	ex.obligeEnv(fr, "lemma", "", tTrue, g, token.NoPos, lenv)
	ex.sc.Prelude = append(ex.stringPrelude(), ex.sc.Prelude...)
	ex.sc.Prelude = append(ex.sc.Prelude, uninterpDecls...)
	if ex.useCount() {
		ex.sc.Prelude = append(ex.sc.Prelude, countPrelude)
		ex.assumedUsed["counting theory for []bool (cnt.bool: bounds, zero on a fresh array, +-1 at a store)"] = true
	}
	res.Obligations = ex.sc.Obls
	res.Unsupported = sortedKeys(ex.unsupported)
	res.Assumed = sortedKeys(ex.assumedUsed)
	res.Stale = sortedKeys(ex.staleIdents)
	return res
}

// recoversFirst: the entry block defers a function literal that calls
// recover(), and no call precedes that defer.
func recoversFirst(fn *ssa.Function) bool {
	if len(fn.Blocks) == 0 {
		return false
	}
	for _, in := range fn.Blocks[0].Instrs {
		switch x := in.(type) {
		case *ssa.Defer:
			var lit *ssa.Function
			switch v := x.Call.Value.(type) {
			case *ssa.Function:
				lit = v
			case *ssa.MakeClosure:
				lit, _ = v.Fn.(*ssa.Function)
			}
			if lit == nil {
				return false
			}
			for _, b := range lit.Blocks {
				for _, i2 := range b.Instrs {
					if c, ok := i2.(*ssa.Call); ok {
						if bi, ok := c.Call.Value.(*ssa.Builtin); ok && bi.Name() == "recover" {
							return true
						}
					}
				}
			}
			return false
		case *ssa.Call, *ssa.Go:
			return false
		}
	}
	return false
}
