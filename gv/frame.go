package main

// Frame engine (K3): modular effect summaries over go/ssa.
//
// For every function a summary is computed from its body and the summaries of
// its callees (fixpoint over recursion): which fields of which objects it may
// write, which references it may store into which objects, and where its
// result comes from. Objects are named relative to the function: created
// during the call (fresh), reachable from parameter i by an access path of
// bounded length (or "*" = anywhere below), package-level state, unknown.
// A top-level `frame` contract is then a set inclusion: every write to a
// non-fresh object must be allowed by the contract.
//
// This is the strongest `assigns` clause of each helper, inferred instead of
// hand-written; only the property-level frames are declared (in the contract
// files) and checked.

import (
	"fmt"
	"go/constant"
	"os"
	"go/token"
	"go/types"
	"sort"
	"strings"

	"golang.org/x/tools/go/callgraph"
	"golang.org/x/tools/go/callgraph/cha"
	"golang.org/x/tools/go/ssa"
)

const (
	regGlobal  = -1
	regUnknown = -2
	regSite    = -3
)

// maxPathLen bounds access paths; entry points in the presentation packages
// (html, q, cmd) use short paths: their frames are about regions and fields,
// not about freshness of deep structures.
var maxPathLen = 5

// ParPath names objects relative to a parameter: Path "" is the parameter's
// own object, "f/g" the object reached by loading field f then g, "*" any
// object reachable from it.
type ParPath struct {
	Idx  int
	Path string
}

func extendPath(p string, f string) string {
	if p == "*" || strings.HasSuffix(p, "/*") {
		return p
	}
	if p == "" {
		return f
	}
	if strings.Count(p, "/")+1 >= maxPathLen {
		return p + "/*"
	}
	// recursive structures: a repeated component closes the path
	for _, c := range strings.Split(p, "/") {
		if c == f {
			return p + "/*"
		}
	}
	return p + "/" + f
}

// belowPath: anything reachable below the object named by p.
func belowPath(p string) string {
	if p == "*" || strings.HasSuffix(p, "/*") {
		return p
	}
	if p == "" {
		return "*"
	}
	return p + "/*"
}

// Org is the abstract origin of a reference-carrying value.
type Org struct {
	Sites   map[ssa.Value]bool // allocation sites within the current function (incl. calls returning fresh objects)
	Par     map[ParPath]bool
	Global  bool
	Unknown bool
}

func (o Org) empty() bool { return len(o.Sites) == 0 && len(o.Par) == 0 && !o.Global && !o.Unknown }

func (o Org) nonFresh() Org { return Org{Par: o.Par, Global: o.Global, Unknown: o.Unknown} }

// coarseFresh, when set, is the single abstract object standing for everything
// allocated during the call (used for entry points outside the root package,
// whose frames are about regions and fields, not about deep freshness).
var coarseFresh ssa.Value

var freshSentinel ssa.Value = ssa.NewConst(constant.MakeInt64(0), types.Typ[types.Int])

func siteOrg(v ssa.Value) Org {
	if coarseFresh != nil {
		return Org{Sites: map[ssa.Value]bool{coarseFresh: true}}
	}
	return Org{Sites: map[ssa.Value]bool{v: true}}
}

func parOrg(i int, path string) Org { return Org{Par: map[ParPath]bool{{i, path}: true}} }

// joinOrg returns a ∪ b and whether it differs from a.
func joinOrg(a, b Org) (Org, bool) {
	ch := false
	r := a
	if b.Global && !a.Global {
		r.Global = true
		ch = true
	}
	if b.Unknown && !a.Unknown {
		r.Unknown = true
		ch = true
	}
	copiedS, copiedP := false, false
	for s := range b.Sites {
		if !r.Sites[s] {
			if !copiedS {
				ns := make(map[ssa.Value]bool, len(r.Sites)+1)
				for k := range r.Sites {
					ns[k] = true
				}
				r.Sites = ns
				copiedS = true
			}
			r.Sites[s] = true
			ch = true
		}
	}
	for p := range b.Par {
		if r.Par[p] || (p.Path != "" && r.Par[ParPath{p.Idx, "*"}]) {
			continue
		}
		if !copiedP {
			np := make(map[ParPath]bool, len(r.Par)+1)
			for k := range r.Par {
				np[k] = true
			}
			r.Par = np
			copiedP = true
		}
		r.Par[p] = true
		ch = true
	}
	if ch && len(r.Par) > maxParEntries {
		r.Par = widenPar(r.Par)
	}
	return r, ch
}

const maxParEntries = 16

// widenPar bounds the number of access paths per parameter: beyond the bound
// all proper paths of a parameter collapse into "*" (anything below it).
func widenPar(m map[ParPath]bool) map[ParPath]bool {
	count := map[int]int{}
	for p := range m {
		if p.Path != "" && p.Idx >= 0 {
			count[p.Idx]++
		}
	}
	out := map[ParPath]bool{}
	for p := range m {
		if p.Idx >= 0 && p.Path != "" && count[p.Idx] > maxParEntries/2 {
			out[ParPath{p.Idx, "*"}] = true
		} else {
			out[p] = true
		}
	}
	return out
}

// SumOrg is an origin in summary form: local sites collapse into Fresh.
type SumOrg struct {
	Fresh   bool               // a fresh object named by the call site (summaries of external functions)
	Sites   map[ssa.Value]bool // objects allocated during the call, by allocation site
	Par     map[ParPath]bool
	Global  bool
	Unknown bool
}

func (s SumOrg) nonFresh() bool { return len(s.Par) > 0 || s.Global || s.Unknown }

func (s SumOrg) String() string {
	var ps []string
	if s.Fresh || len(s.Sites) > 0 {
		ps = append(ps, fmt.Sprintf("fresh(%d)", len(s.Sites)))
	}
	var pp []string
	for p := range s.Par {
		pp = append(pp, fmt.Sprintf("param%d[%s]", p.Idx, p.Path))
	}
	sort.Strings(pp)
	ps = append(ps, pp...)
	if s.Global {
		ps = append(ps, "global")
	}
	if s.Unknown {
		ps = append(ps, "unknown")
	}
	return "{" + strings.Join(ps, ",") + "}"
}

func (s *SumOrg) join(o SumOrg) bool {
	ch := false
	if o.Fresh && !s.Fresh {
		s.Fresh = true
		ch = true
	}
	for v := range o.Sites {
		if !s.Sites[v] {
			if s.Sites == nil {
				s.Sites = map[ssa.Value]bool{}
			}
			s.Sites[v] = true
			ch = true
		}
	}
	if o.Global && !s.Global {
		s.Global = true
		ch = true
	}
	if o.Unknown && !s.Unknown {
		s.Unknown = true
		ch = true
	}
	for p := range o.Par {
		if !s.Par[p] && !(p.Path != "" && s.Par[ParPath{p.Idx, "*"}]) {
			if s.Par == nil {
				s.Par = map[ParPath]bool{}
			}
			s.Par[p] = true
			ch = true
		}
	}
	if ch && len(s.Par) > maxParEntries {
		s.Par = widenPar(s.Par)
	}
	return ch
}

func sumOf(o Org) SumOrg {
	s := SumOrg{Global: o.Global, Unknown: o.Unknown}
	for v := range o.Sites {
		if s.Sites == nil {
			s.Sites = map[ssa.Value]bool{}
		}
		s.Sites[v] = true
	}
	for p := range o.Par {
		if s.Par == nil {
			s.Par = map[ParPath]bool{}
		}
		s.Par[p] = true
	}
	return s
}

// Obj names the object(s) a write or link concerns, in summary form.
type Obj struct {
	Region int       // param index, regGlobal, regUnknown, regSite
	Path   string    // access path below the parameter ("" = the parameter's own object)
	Site   ssa.Value // for regSite: the allocation site (an object created during the call)
}

type WriteKey struct {
	Field string
	Obj   Obj
}

type LinkKey struct {
	Field string
	To    Obj
	From  Obj
}

type Witness struct {
	Chain []string // function keys from the summarised function down to the store
	Pos   string
}

func witnessLess(a, b *Witness) bool {
	if len(a.Chain) != len(b.Chain) {
		return len(a.Chain) < len(b.Chain)
	}
	return strings.Join(a.Chain, ">")+a.Pos < strings.Join(b.Chain, ">")+b.Pos
}

type Summary struct {
	Fn         *ssa.Function
	Writes     map[WriteKey]*Witness
	Unsync     map[WriteKey]*Witness // writes not under a mutex held in the same function (race frames)
	Links      map[WriteKey]*SumOrg // (field, target object) -> what may be stored there
	LinkWit    map[WriteKey]*Witness
	Ret        SumOrg
	SiteContent map[ssa.Value]map[string]*SumOrg // content of objects created during the call that stay reachable afterwards
	Spawns     bool
	Unknowns   map[string]*Witness // unresolved calls
	done       bool
	version    int
	pathCount  map[fieldRegion]int
}

func newSummary(fn *ssa.Function) *Summary {
	return &Summary{Fn: fn, Writes: map[WriteKey]*Witness{}, Links: map[WriteKey]*SumOrg{}, LinkWit: map[WriteKey]*Witness{}, SiteContent: map[ssa.Value]map[string]*SumOrg{}, Unknowns: map[string]*Witness{},
		Unsync: map[WriteKey]*Witness{}}
}

var frameDebugHook func(st *fstate)

type ctxKey struct {
	fn  *ssa.Function
	ctx string
}

type FrameAnalysis struct {
	ld          *Loaded
	cg          *callgraph.Graph
	sums        map[ctxKey]*Summary
	active      map[ctxKey]bool
	changed     bool
	assumptions map[string]bool
	visCache    map[*types.Package]map[*types.Package]bool
	rootVis     map[*types.Package]bool
	rootTag     string
	deps        map[ctxKey]map[ctxKey]bool // callee -> callers that used its summary
	dirty       map[ctxKey]bool
	ctxOf       map[ctxKey]funcCtx
	cur         []ctxKey // stack of summaries being computed
	stable      map[ctxKey]bool
	visited     map[ctxKey]bool
}

func NewFrameAnalysis(ld *Loaded) *FrameAnalysis {
	fa := &FrameAnalysis{ld: ld, sums: map[ctxKey]*Summary{}, active: map[ctxKey]bool{}, assumptions: map[string]bool{}}
	fa.cg = cha.CallGraph(ld.Prog)
	return fa
}

// funcCtx binds function-typed parameters to concrete closures/functions.
type funcCtx map[int]*ssa.Function

func (c funcCtx) key() string {
	if len(c) == 0 {
		return ""
	}
	var ks []int
	for k := range c {
		ks = append(ks, k)
	}
	sort.Ints(ks)
	var b strings.Builder
	for _, k := range ks {
		fmt.Fprintf(&b, "%d=%s;", k, c[k].String())
	}
	return b.String()
}

// Summarise returns the (fixpoint) summary of fn in the given context.
func (fa *FrameAnalysis) Summarise(fn *ssa.Function, ctx funcCtx) *Summary {
	if fa.stable == nil {
		fa.stable = map[ctxKey]bool{}
	}
	if fa.deps == nil {
		fa.deps = map[ctxKey]map[ctxKey]bool{}
		fa.ctxOf = map[ctxKey]funcCtx{}
	}
	// dynamic dispatch is resolved among the packages the analysed entry point can name
	fa.rootVis = fa.visiblePkgs(fn)
	fa.rootTag = ""
	maxPathLen = 5
	coarseFresh = nil
	if p := pkgOfFunc(fn); p != nil {
		fa.rootTag = "root=" + p.Path() + "|"
		if p.Path() != repoModule {
			maxPathLen = 2
			coarseFresh = freshSentinel
			fa.assumptions["entry points outside the root package are analysed with one abstract object for everything allocated during the call and access paths of length <= 2 (coarser, still a may-analysis)"] = true
		}
	}
	root := fa.summ(fn, ctx)
	// chaotic iteration: recompute a summary when one of its callees' summaries grew
	for rounds := 0; len(fa.dirty) > 0 && rounds < 200000; rounds++ {
		var k ctxKey
		for kk := range fa.dirty {
			k = kk
			break
		}
		delete(fa.dirty, k)
		s := fa.sums[k]
		if s == nil || len(k.fn.Blocks) == 0 || !inRepo(k.fn) {
			continue
		}
		s.done = false
		fa.summ(k.fn, fa.ctxOf[k])
	}
	return root
}

func (fa *FrameAnalysis) summ(fn *ssa.Function, ctx funcCtx) *Summary {
	k := ctxKey{fn, fa.rootTag + ctx.key()}
	s := fa.sums[k]
	if s == nil {
		s = newSummary(fn)
		fa.sums[k] = s
	}
	// the summary being computed depends on this one
	if n := len(fa.cur); n > 0 {
		d := fa.deps[k]
		if d == nil {
			d = map[ctxKey]bool{}
			fa.deps[k] = d
		}
		d[fa.cur[n-1]] = true
	}
	if _, ok := fa.ctxOf[k]; !ok {
		fa.ctxOf[k] = ctx
	}
	if s.done || fa.active[k] {
		return s
	}
	if len(fn.Blocks) == 0 || !inRepo(fn) {
		fa.externalSummary(fn, s)
		s.done = true
		return s
	}
	if funcKey(fn) == "gedcom.Nodes.CastTo" {
		// reflection: builds a new slice holding the receiver's nodes (assumed summary)
		s.Ret.join(SumOrg{Par: map[ParPath]bool{{0, ""}: true, {0, "elem:Node"}: true}})
		fa.assumptions["gedcom.Nodes.CastTo (reflect): returns a new slice holding exactly the nodes of its receiver and writes nothing else"] = true
		s.done = true
		return s
	}
	fa.active[k] = true
	fa.cur = append(fa.cur, k)
	before := s.version
	fa.analyse(fn, ctx, s)
	fa.cur = fa.cur[:len(fa.cur)-1]
	delete(fa.active, k)
	s.done = true
	if s.version != before {
		if fa.dirty == nil {
			fa.dirty = map[ctxKey]bool{}
		}
		for caller := range fa.deps[k] {
			if caller != k {
				fa.dirty[caller] = true
			}
		}
		// a recursive function must see its own grown summary
		if fa.deps[k][k] {
			fa.dirty[k] = true
		}
	}
	return s
}

// ---------------------------------------------------------------------------

type fstate struct {
	fa      *FrameAnalysis
	fn      *ssa.Function
	ctx     funcCtx
	sum     *Summary
	orgs    map[ssa.Value]Org
	content map[ssa.Value]map[string]Org // site -> field -> origins stored
	live    map[*ssa.BasicBlock]bool
	locked  map[ssa.Instruction]bool
	escapeRoots []Org // fresh objects stored into pre-existing ones (they outlive the call)
	keepWitnesses bool // prefer the smallest witness (deterministic names); off in coarse mode
}

func isRefType(t types.Type) bool {
	if types.TypeString(t, nil) == "error" {
		// error values are treated as immutable scalars (assumption, listed in evidence)
		return false
	}
	switch u := t.Underlying().(type) {
	case *types.Pointer, *types.Slice, *types.Map, *types.Chan, *types.Signature, *types.Interface:
		return true
	case *types.Struct:
		for i := 0; i < u.NumFields(); i++ {
			if isRefType(u.Field(i).Type()) {
				return true
			}
		}
	case *types.Array:
		return isRefType(u.Elem())
	case *types.Tuple:
		for i := 0; i < u.Len(); i++ {
			if isRefType(u.At(i).Type()) {
				return true
			}
		}
	}
	return false
}

func (st *fstate) org(v ssa.Value) Org {
	switch v.(type) {
	case *ssa.Const, *ssa.Function, *ssa.Builtin:
		return Org{}
	case *ssa.Global:
		g := v.(*ssa.Global)
		return Org{Global: true, Par: map[ParPath]bool{{regGlobal, g.Pkg.Pkg.Name() + "." + g.Name()}: true}}
	}
	return st.orgs[v]
}

func (st *fstate) setOrg(v ssa.Value, o Org) bool {
	n, ch := joinOrg(st.orgs[v], o)
	if ch {
		st.orgs[v] = n
	}
	return ch
}

func fieldKeyOfAddr(addr ssa.Value) string {
	switch a := addr.(type) {
	case *ssa.FieldAddr:
		pt, ok := a.X.Type().Underlying().(*types.Pointer)
		if !ok {
			return "field:?"
		}
		stT, ok := pt.Elem().Underlying().(*types.Struct)
		if !ok {
			return "field:?"
		}
		name := stT.Field(a.Field).Name()
		if stT.Field(a.Field).Embedded() && (name == "SimpleNode" || name == "simpleDocumentNode") {
			// every node type embeds these: one canonical key keeps access paths few
			return "^" + name
		}
		if inner, ok := a.X.(*ssa.FieldAddr); ok {
			return fieldKeyOfAddr(inner) + "." + name
		}
		return shortType(pt.Elem()) + "." + name
	case *ssa.IndexAddr:
		switch xt := a.X.Type().Underlying().(type) {
		case *types.Slice:
			return "elem:" + shortType(xt.Elem())
		case *types.Pointer:
			if at, ok := xt.Elem().Underlying().(*types.Array); ok {
				return "elem:" + shortType(at.Elem())
			}
		}
		return "elem:?"
	case *ssa.Global:
		return "global:" + a.Pkg.Pkg.Name() + "." + a.Name()
	}
	if pt, ok := addr.Type().Underlying().(*types.Pointer); ok {
		return "deref:" + shortType(pt.Elem())
	}
	return "deref:?"
}

func shortType(t types.Type) string {
	s := types.TypeString(t, func(p *types.Package) string { return "" })
	return strings.TrimPrefix(s, ".")
}

func (st *fstate) witness(pos token.Pos, sub *Witness) *Witness {
	w := &Witness{Chain: []string{funcKey(st.fn)}, Pos: st.fa.ld.posString(pos)}
	if sub != nil {
		w.Chain = append(w.Chain, sub.Chain...)
		w.Pos = sub.Pos
	}
	return w
}

func objsOf(o Org) []Obj {
	var rs []Obj
	namedGlobal := false
	for p := range o.Par {
		if p.Idx == regGlobal {
			// keep the variable's name, drop what is below it
			name := p.Path
			if i := strings.Index(name, "/"); i >= 0 {
				name = name[:i]
			}
			rs = append(rs, Obj{Region: regGlobal, Path: name})
			namedGlobal = true
			continue
		}
		rs = append(rs, Obj{Region: p.Idx, Path: p.Path})
	}
	sort.Slice(rs, func(i, j int) bool {
		if rs[i].Region != rs[j].Region {
			return rs[i].Region < rs[j].Region
		}
		return rs[i].Path < rs[j].Path
	})
	if o.Global && !namedGlobal {
		rs = append(rs, Obj{Region: regGlobal})
	}
	if o.Unknown {
		rs = append(rs, Obj{Region: regUnknown})
	}
	// dedupe (several paths below one global collapse to its name)
	out := rs[:0]
	seen := map[Obj]bool{}
	for _, r := range rs {
		if !seen[r] {
			seen[r] = true
			out = append(out, r)
		}
	}
	return out
}

type fieldRegion struct {
	field  string
	region int
}

func (st *fstate) addWrite(field string, base Org, w *Witness, locked bool) {
	st.addWriteLazy(field, base, func() *Witness { return w }, locked)
}

func (st *fstate) addWriteLazy(field string, base Org, mkw func() *Witness, locked bool) {
	var w *Witness
	get := func() *Witness {
		if w == nil {
			w = mkw()
		}
		return w
	}
	if st.sum.pathCount == nil {
		st.sum.pathCount = map[fieldRegion]int{}
	}
	for _, ob := range objsOf(base) {
		k := WriteKey{field, ob}
		_, have := st.sum.Writes[k]
		if !have && ob.Region >= 0 && ob.Path != "" && ob.Path != "*" {
			// bound the number of distinct paths per (field, parameter)
			if st.sum.pathCount[fieldRegion{field, ob.Region}] >= 6 {
				k = WriteKey{field, Obj{Region: ob.Region, Path: "*"}}
				_, have = st.sum.Writes[k]
			}
		}
		if !have {
			st.sum.Writes[k] = get()
			st.sum.pathCount[fieldRegion{field, k.Obj.Region}]++
			st.sum.version++
			st.fa.changed = true
		} else if st.keepWitnesses {
			if old := st.sum.Writes[k]; witnessLess(get(), old) {
				st.sum.Writes[k] = get()
			}
		}
		if !locked {
			if _, ok := st.sum.Unsync[k]; !ok {
				st.sum.Unsync[k] = get()
				st.sum.version++
				st.fa.changed = true
			}
		}
	}
}

// reach closes an origin under the content of fresh sites (and "anything
// below" for parameters).
func (st *fstate) reach(o Org) Org {
	r := Org{Global: o.Global, Unknown: o.Unknown, Par: map[ParPath]bool{}, Sites: map[ssa.Value]bool{}}
	addPar := func(p ParPath) {
		if p.Idx == regGlobal {
			r.Par[p] = true
			r.Global = true
			return
		}
		if p.Path != "" && r.Par[ParPath{p.Idx, "*"}] {
			return
		}
		r.Par[p] = true
		r.Par[ParPath{p.Idx, belowPath(p.Path)}] = true
	}
	for p := range o.Par {
		addPar(p)
	}
	var work []ssa.Value
	for s := range o.Sites {
		work = append(work, s)
	}
	for len(work) > 0 {
		s := work[len(work)-1]
		work = work[:len(work)-1]
		if r.Sites[s] {
			continue
		}
		r.Sites[s] = true
		for _, c := range st.content[s] {
			for p := range c.Par {
				addPar(p)
			}
			if c.Global {
				r.Global = true
			}
			if c.Unknown {
				r.Unknown = true
			}
			for s2 := range c.Sites {
				if !r.Sites[s2] {
					work = append(work, s2)
				}
			}
		}
	}
	if len(r.Par) > maxParEntries {
		r.Par = widenPar(r.Par)
	}
	return r
}

// directClosure: the pre-existing objects directly referenced by val or by
// fresh objects reachable from val (what is below them follows by reach()).
func (st *fstate) directClosure(val Org) Org {
	r := val.nonFresh()
	seen := map[ssa.Value]bool{}
	var work []ssa.Value
	for s := range val.Sites {
		work = append(work, s)
	}
	for len(work) > 0 {
		s := work[len(work)-1]
		work = work[:len(work)-1]
		if seen[s] {
			continue
		}
		seen[s] = true
		for _, c := range st.content[s] {
			r, _ = joinOrg(r, c.nonFresh())
			for s2 := range c.Sites {
				if !seen[s2] {
					work = append(work, s2)
				}
			}
		}
	}
	return r
}

// store records *addr = val (or the equivalent effect of a callee).
func (st *fstate) store(field string, base Org, val Org, pos token.Pos, sub *Witness, locked bool) bool {
	ch := false
	if os.Getenv("GV_FRAME_ORGS") == funcKey(st.fn) && (field == "SimpleNode.children" || field == "elem:Node") && len(val.Par) > 0 && len(base.Sites) > 0 {
		sw := ""
		if sub != nil {
			sw = strings.Join(sub.Chain, ">")
		}
		fmt.Println("  STORE", field, "val", sumOf(val).String(), "at", st.fa.ld.posString(pos), sw)
	}
	for s := range base.Sites {
		m := st.content[s]
		if m == nil {
			m = map[string]Org{}
			st.content[s] = m
		}
		n, c := joinOrg(m[field], val)
		if c {
			m[field] = n
			ch = true
		}
	}
	nf := base.nonFresh()
	if !nf.empty() {
		var w *Witness
		mkw := func() *Witness {
			if w == nil {
				w = st.witness(pos, sub)
			}
			return w
		}
		st.addWriteLazy(field, nf, mkw, locked)
		if len(val.Sites) > 0 {
			st.escapeRoots = append(st.escapeRoots, Org{Sites: val.Sites})
		}
		// what becomes reachable from the target: sources keep their region, their
		// access path is dropped ("somewhere below parameter j") - links only feed
		// reachability, precision matters on the target side
		from := SumOrg{Global: val.Global, Unknown: val.Unknown}
		for p := range val.Par {
			pp := p
			// keep short access paths (what a container already held), close longer ones
			if comps := strings.Split(pp.Path, "/"); len(comps) > 3 {
				pp.Path = strings.Join(comps[:3], "/") + "/*"
			}
			if from.Par == nil {
				from.Par = map[ParPath]bool{}
			}
			from.Par[pp] = true
		}
		for v := range val.Sites {
			if from.Sites == nil {
				from.Sites = map[ssa.Value]bool{}
			}
			from.Sites[v] = true
		}
		tos := objsOf(nf)
		if len(tos) > 8 {
			seenR := map[int]bool{}
			var ts []Obj
			for _, t := range tos {
				if !seenR[t.Region] {
					seenR[t.Region] = true
					if t.Region >= 0 {
						ts = append(ts, Obj{Region: t.Region, Path: "*"})
					} else {
						ts = append(ts, t)
					}
				}
			}
			tos = ts
		}
		if from.Fresh || len(from.Sites) > 0 || from.nonFresh() {
			for _, to := range tos {
				k := WriteKey{field, to}
				cur := st.sum.Links[k]
				if cur == nil {
					cur = &SumOrg{}
					st.sum.Links[k] = cur
				}
				if cur.join(from) {
					st.sum.version++; st.fa.changed = true
				}
				if old, ok := st.sum.LinkWit[k]; !ok {
					st.sum.LinkWit[k] = mkw()
				} else if st.keepWitnesses && witnessLess(mkw(), old) {
					st.sum.LinkWit[k] = mkw()
				}
			}
		}
	}
	return ch
}

func (fa *FrameAnalysis) analyse(fn *ssa.Function, ctx funcCtx, sum *Summary) {
	st := &fstate{fa: fa, fn: fn, ctx: ctx, sum: sum, orgs: map[ssa.Value]Org{}, content: map[ssa.Value]map[string]Org{}, keepWitnesses: true}
	for i, p := range fn.Params {
		if isRefType(p.Type()) {
			st.orgs[p] = parOrg(i, "")
		}
	}
	for i, fv := range fn.FreeVars {
		st.orgs[fv] = parOrg(len(fn.Params)+i, "")
	}
	st.computeLive()
	st.computeLocked()
	for iter := 0; iter < 60; iter++ {
		changed := false
		for _, b := range fn.Blocks {
			if !st.live[b] {
				continue
			}
			for _, in := range b.Instrs {
				if st.transfer(in) {
					changed = true
				}
			}
		}
		if !changed {
			break
		}
	}
	if frameDebugHook != nil {
		frameDebugHook(st)
	}
	if os.Getenv("GV_FRAME_STATS") != "" && (len(sum.Writes) > 100 || len(sum.Links) > 100 || os.Getenv("GV_FRAME_STATS") == "all") {
		fmt.Fprintf(os.Stderr, "stats %s ctx=%q writes=%d links=%d\n", funcKey(fn), ctx.key(), len(sum.Writes), len(sum.Links))
	}
	if dbg := os.Getenv("GV_FRAME_DUMP"); dbg != "" && strings.Contains(funcKey(fn), dbg) {
		fmt.Println("#### content of", funcKey(fn), "ctx", ctx.key())
		for s, m := range st.content {
			for f, c := range m {
				fmt.Printf("   site %s (%s) .%s = %s sites=%d\n", s.Name(), strings.SplitN(s.String(), "\n", 2)[0], f, sumOf(c).String(), len(c.Sites))
			}
		}
	}
	// result and the objects that outlive the call
	roots := append([]Org{}, st.escapeRoots...)
	for _, b := range fn.Blocks {
		if !st.live[b] {
			continue
		}
		for _, in := range b.Instrs {
			ret, ok := in.(*ssa.Return)
			if !ok {
				continue
			}
			for _, r := range ret.Results {
				if !isRefType(r.Type()) {
					continue
				}
				ro := st.org(r)
				if sum.Ret.join(sumOf(ro)) {
					sum.version++
					sum.version++
				sum.version++
			fa.changed = true
				}
				roots = append(roots, ro)
			}
		}
	}
	seen := map[ssa.Value]bool{}
	var work []ssa.Value
	for _, ro := range roots {
		for s := range ro.Sites {
			work = append(work, s)
		}
	}
	for len(work) > 0 {
		s := work[len(work)-1]
		work = work[:len(work)-1]
		if seen[s] {
			continue
		}
		seen[s] = true
		m := sum.SiteContent[s]
		if m == nil {
			m = map[string]*SumOrg{}
			sum.SiteContent[s] = m
			sum.version++
			fa.changed = true
		}
		for f, c := range st.content[s] {
			cur := m[f]
			if cur == nil {
				cur = &SumOrg{}
				m[f] = cur
			}
			if cur.join(sumOf(c)) {
				sum.version++
				sum.version++
			fa.changed = true
			}
			for s2 := range c.Sites {
				if !seen[s2] {
					work = append(work, s2)
				}
			}
		}
	}
}

// computeLive folds branches on results of context-bound closures that are
// constant (e.g. filter's keepTraversing when called from DeepCopy).
func (st *fstate) computeLive() {
	st.live = map[*ssa.BasicBlock]bool{}
	var walk func(b *ssa.BasicBlock)
	walk = func(b *ssa.BasicBlock) {
		if st.live[b] {
			return
		}
		st.live[b] = true
		if len(b.Instrs) > 0 {
			if iff, ok := b.Instrs[len(b.Instrs)-1].(*ssa.If); ok {
				if c, known := st.constBool(iff.Cond, 0); known {
					if c {
						walk(b.Succs[0])
					} else {
						walk(b.Succs[1])
					}
					return
				}
			}
		}
		for _, s := range b.Succs {
			walk(s)
		}
	}
	if len(st.fn.Blocks) > 0 {
		walk(st.fn.Blocks[0])
	}
}

func (st *fstate) constBool(v ssa.Value, depth int) (bool, bool) {
	if depth > 4 {
		return false, false
	}
	switch x := v.(type) {
	case *ssa.Const:
		if x.Value != nil && x.Value.Kind() == 1 { // constant.Bool
			return x.Value.String() == "true", true
		}
	case *ssa.UnOp:
		if x.Op == token.NOT {
			if c, ok := st.constBool(x.X, depth+1); ok {
				return !c, true
			}
		}
	case *ssa.Extract:
		if call, ok := x.Tuple.(*ssa.Call); ok {
			if p, ok := call.Call.Value.(*ssa.Parameter); ok {
				for i, fp := range st.fn.Params {
					if fp == p {
						if cf := st.ctx[i]; cf != nil {
							return constResult(cf, x.Index)
						}
					}
				}
			}
		}
	case *ssa.Phi:
		var val, have bool
		for _, e := range x.Edges {
			c, ok := st.constBool(e, depth+1)
			if !ok {
				return false, false
			}
			if have && c != val {
				return false, false
			}
			val, have = c, true
		}
		return val, have
	}
	return false, false
}

// constResult: does fn return the same boolean constant at result idx on every path?
func constResult(fn *ssa.Function, idx int) (bool, bool) {
	var val, have bool
	for _, b := range fn.Blocks {
		for _, in := range b.Instrs {
			r, ok := in.(*ssa.Return)
			if !ok {
				continue
			}
			if idx >= len(r.Results) {
				return false, false
			}
			c, ok := r.Results[idx].(*ssa.Const)
			if !ok || c.Value == nil || c.Value.Kind() != 1 {
				return false, false
			}
			v := c.Value.String() == "true"
			if have && v != val {
				return false, false
			}
			val, have = v, true
		}
	}
	return val, have
}

// computeLocked marks instructions that execute between X.Lock() and
// X.Unlock() in the same block, or after a Lock whose Unlock is deferred.
func (st *fstate) computeLocked() {
	st.locked = map[ssa.Instruction]bool{}
	isMutexCall := func(in ssa.Instruction, name string) bool {
		c, ok := in.(ssa.CallInstruction)
		if !ok {
			return false
		}
		cm := c.Common()
		if cm.IsInvoke() {
			return false
		}
		f, ok := cm.Value.(*ssa.Function)
		if !ok {
			return false
		}
		return (strings.Contains(f.String(), "sync.Mutex)") || strings.Contains(f.String(), "sync.RWMutex)")) && f.Name() == name
	}
	deferredUnlock := false
	for _, b := range st.fn.Blocks {
		for _, in := range b.Instrs {
			if d, ok := in.(*ssa.Defer); ok && isMutexCall(d, "Unlock") {
				deferredUnlock = true
			}
		}
	}
	for _, b := range st.fn.Blocks {
		held := false
		for _, in := range b.Instrs {
			if _, isDefer := in.(*ssa.Defer); !isDefer {
				if isMutexCall(in, "Lock") {
					held = true
					continue
				}
				if isMutexCall(in, "Unlock") {
					held = false
					continue
				}
			}
			if held {
				st.locked[in] = true
			}
		}
	}
	if deferredUnlock {
		seenLock := false
		for _, b := range st.fn.Blocks {
			for _, in := range b.Instrs {
				if _, isDefer := in.(*ssa.Defer); !isDefer && isMutexCall(in, "Lock") {
					seenLock = true
					continue
				}
				if seenLock {
					st.locked[in] = true
				}
			}
		}
	}
}

func (st *fstate) transfer(in ssa.Instruction) bool {
	switch x := in.(type) {
	case *ssa.Alloc:
		return st.setOrg(x, siteOrg(x))
	case *ssa.MakeSlice:
		return st.setOrg(x, siteOrg(x))
	case *ssa.MakeMap:
		return st.setOrg(x, siteOrg(x))
	case *ssa.MakeChan:
		return st.setOrg(x, siteOrg(x))
	case *ssa.MakeClosure:
		ch := st.setOrg(x, siteOrg(x))
		for j, b := range x.Bindings {
			if st.store(fmt.Sprintf("closure#%d", j), siteOrg(x), st.org(b), x.Pos(), nil, true) {
				ch = true
			}
		}
		return ch
	case *ssa.MakeInterface:
		if isRefType(x.X.Type()) {
			return st.setOrg(x, st.org(x.X))
		}
	case *ssa.FieldAddr:
		return st.setOrg(x, st.org(x.X))
	case *ssa.Field:
		if isRefType(x.Type()) {
			// a field of a struct value: one load below the object the struct value stands for
			stT, ok := x.X.Type().Underlying().(*types.Struct)
			if ok {
				if _, inner := x.Type().Underlying().(*types.Struct); inner {
					return st.setOrg(x, st.org(x.X))
				}
				fname := stT.Field(x.Field).Name()
				key := shortType(x.X.Type()) + "." + fname
				if stT.Field(x.Field).Embedded() && (fname == "SimpleNode" || fname == "simpleDocumentNode") {
					key = "^" + fname
				}
				return st.setOrg(x, st.loadFrom(st.org(x.X), key))
			}
			return st.setOrg(x, st.org(x.X))
		}
	case *ssa.IndexAddr:
		return st.setOrg(x, st.org(x.X))
	case *ssa.Index:
		if isRefType(x.Type()) {
			return st.setOrg(x, st.org(x.X))
		}
	case *ssa.Slice:
		return st.setOrg(x, st.org(x.X))
	case *ssa.ChangeType:
		return st.setOrg(x, st.org(x.X))
	case *ssa.ChangeInterface:
		return st.setOrg(x, st.org(x.X))
	case *ssa.Convert:
		if isRefType(x.Type()) {
			if isRefType(x.X.Type()) {
				return st.setOrg(x, st.org(x.X))
			}
			return st.setOrg(x, siteOrg(x))
		}
	case *ssa.TypeAssert:
		return st.setOrg(x, st.org(x.X))
	case *ssa.Extract:
		if isRefType(x.Type()) {
			if nx, ok := x.Tuple.(*ssa.Next); ok && !nx.IsString {
				if _, isMap := nx.Iter.(*ssa.Range).X.Type().Underlying().(*types.Map); isMap {
					if x.Index == 1 {
						return st.setOrg(x, st.loadFrom(st.org(nx.Iter), "mapkey"))
					}
					return st.setOrg(x, st.loadFrom(st.org(nx.Iter), "map"))
				}
			}
			return st.setOrg(x, st.org(x.Tuple))
		}
	case *ssa.Phi:
		if !isRefType(x.Type()) {
			return false
		}
		ch := false
		for i, e := range x.Edges {
			if i < len(x.Block().Preds) && !st.live[x.Block().Preds[i]] {
				continue
			}
			if st.setOrg(x, st.org(e)) {
				ch = true
			}
		}
		return ch
	case *ssa.UnOp:
		if x.Op == token.MUL {
			if !isRefType(x.Type()) {
				return false
			}
			if _, isStruct := x.Type().Underlying().(*types.Struct); isStruct {
				// a struct value read from memory stands for the object it was read from
				return st.setOrg(x, st.org(x.X))
			}
			return st.setOrg(x, st.loadFrom(st.org(x.X), fieldKeyOfAddr(x.X)))
		}
		if x.Op == token.ARROW && isRefType(x.Type()) {
			return st.setOrg(x, st.loadFrom(st.org(x.X), "chan"))
		}
	case *ssa.Lookup:
		if isRefType(x.Type()) {
			if _, isMap := x.X.Type().Underlying().(*types.Map); isMap {
				return st.setOrg(x, st.loadFrom(st.org(x.X), "map"))
			}
		}
	case *ssa.Range:
		return st.setOrg(x, st.org(x.X))
	case *ssa.Next:
		return false
	case *ssa.Store:
		v := Org{}
		if isRefType(x.Val.Type()) {
			v = st.org(x.Val)
		}
		syncd := st.locked[in] || receivedObject(x.Addr)
		if receivedObject(x.Addr) {
			st.fa.assumptions["an object received from a channel is owned by the receiving goroutine (writes to its own fields are not shared writes)"] = true
		}
		ch := st.store(fieldKeyOfAddr(x.Addr), st.org(x.Addr), v, x.Pos(), nil, syncd)
		// copying a whole struct copies every reference it holds, field by field
		if stT, ok := x.Val.Type().Underlying().(*types.Struct); ok && isRefType(x.Val.Type()) {
			for i := 0; i < stT.NumFields(); i++ {
				f := stT.Field(i)
				if !isRefType(f.Type()) {
					continue
				}
				key := shortType(x.Val.Type()) + "." + f.Name()
				if f.Embedded() && (f.Name() == "SimpleNode" || f.Name() == "simpleDocumentNode") {
					key = "^" + f.Name()
				}
				if st.store(key, st.org(x.Addr), st.loadFrom(st.org(x.Val), key), x.Pos(), nil, st.locked[in]) {
					ch = true
				}
			}
		}
		return ch
	case *ssa.MapUpdate:
		v := Org{}
		if isRefType(x.Value.Type()) {
			v = st.org(x.Value)
		}
		ch := st.store("map", st.org(x.Map), v, x.Pos(), nil, st.locked[in])
		if isRefType(x.Key.Type()) {
			if st.store("mapkey", st.org(x.Map), st.org(x.Key), x.Pos(), nil, st.locked[in]) {
				ch = true
			}
		}
		return ch
	case *ssa.Send:
		return st.store("chan", st.org(x.Chan), st.org(x.X), x.Pos(), nil, true)
	case *ssa.Call:
		return st.call(x, x, false)
	case *ssa.Go:
		if !st.sum.Spawns {
			st.sum.Spawns = true
			st.sum.version++; st.fa.changed = true
		}
		return st.call(x, nil, true)
	case *ssa.Defer:
		return st.call(x, nil, false)
	case *ssa.Select:
		if isRefType(x.Type()) {
			return st.setOrg(x, Org{Unknown: true})
		}
	}
	return false
}

// receivedObject: addr is a field of an object obtained directly from a channel receive.
func receivedObject(addr ssa.Value) bool {
	for i := 0; i < 4; i++ {
		fa, ok := addr.(*ssa.FieldAddr)
		if !ok {
			return false
		}
		switch x := fa.X.(type) {
		case *ssa.UnOp:
			if x.Op == token.ARROW {
				return true
			}
		case *ssa.Extract:
			if u, ok := x.Tuple.(*ssa.UnOp); ok && u.Op == token.ARROW {
				return true
			}
		case *ssa.Phi:
			all := len(x.Edges) > 0
			for _, e := range x.Edges {
				ok2 := false
				if u, ok := e.(*ssa.UnOp); ok && u.Op == token.ARROW {
					ok2 = true
				}
				if ex, ok := e.(*ssa.Extract); ok {
					if u, ok := ex.Tuple.(*ssa.UnOp); ok && u.Op == token.ARROW {
						ok2 = true
					}
				}
				if !ok2 {
					all = false
				}
			}
			return all
		}
		addr = fa.X
	}
	return false
}

// loadFrom: origin of a value loaded from `field` of the objects in base.
func (st *fstate) loadFrom(base Org, field string) Org {
	r := Org{Global: base.Global, Unknown: base.Unknown}
	if strings.HasPrefix(field, "elem:") {
		// fresh slices created inside callees are elided from link summaries (their
		// elements are recorded directly in the field that holds the slice), so an
		// element load also yields what the "slice" value itself stands for
		r, _ = joinOrg(r, base)
	}
	for p := range base.Par {
		r, _ = joinOrg(r, parOrg(p.Idx, extendPath(p.Path, field)))
	}
	for s := range base.Sites {
		if m := st.content[s]; m != nil {
			r, _ = joinOrg(r, m[field])
		}
	}
	return r
}

// ---------------------------------------------------------------------------
// calls

type target struct {
	fn       *ssa.Function
	args     []ssa.Value
	free     []ssa.Value
	freeOrgs []Org // origins of the captured variables when the closure is only known through a parameter
}

func (st *fstate) call(in ssa.CallInstruction, res ssa.Value, spawned bool) bool {
	cm := in.Common()
	ch := false
	if b, ok := cm.Value.(*ssa.Builtin); ok {
		return st.builtinCall(in, b, res)
	}
	targets := st.targets(in)
	if len(targets) == 0 {
		k := "unresolved call in " + funcKey(st.fn) + " at " + st.fa.ld.posString(in.Pos())
		if _, ok := st.sum.Unknowns[k]; !ok {
			st.sum.Unknowns[k] = st.witness(in.Pos(), nil)
			st.sum.version++; st.fa.changed = true
		}
		for _, a := range cm.Args {
			if isRefType(a.Type()) {
				if st.store("unknown-callee", st.reach(st.org(a)), Org{Unknown: true}, in.Pos(), nil, st.locked[in.(ssa.Instruction)]) {
					ch = true
				}
			}
		}
		if res != nil && isRefType(res.Type()) {
			if st.setOrg(res, Org{Unknown: true}) {
				ch = true
			}
		}
		return ch
	}
	for _, t := range targets {
		if st.applyCallee(in, res, t.fn, t.args, t.free, t.freeOrgs, spawned) {
			ch = true
		}
	}
	return ch
}

// visiblePkgs: the packages a function's package can name (itself and its
// transitive imports). Dynamic dispatch is resolved within them; targets in
// packages that merely import this one can only arrive through values handed
// in by such callers, which are bound by context where the caller is analysed.
func (fa *FrameAnalysis) visiblePkgs(fn *ssa.Function) map[*types.Package]bool {
	f := fn
	for f != nil && f.Pkg == nil {
		f = f.Parent()
	}
	var root *types.Package
	if f != nil && f.Pkg != nil {
		root = f.Pkg.Pkg
	} else if fn.Object() != nil {
		root = fn.Object().Pkg()
	}
	if root == nil {
		return nil
	}
	if fa.visCache == nil {
		fa.visCache = map[*types.Package]map[*types.Package]bool{}
	}
	if m, ok := fa.visCache[root]; ok {
		return m
	}
	m := map[*types.Package]bool{}
	var walk func(p *types.Package)
	walk = func(p *types.Package) {
		if m[p] {
			return
		}
		m[p] = true
		for _, q := range p.Imports() {
			walk(q)
		}
	}
	walk(root)
	fa.visCache[root] = m
	fa.assumptions["dynamic calls (interfaces, function values) are resolved by CHA within the packages visible from the analysed entry point or from the calling function (package + transitive imports)"] = true
	return m
}

func pkgOfFunc(fn *ssa.Function) *types.Package {
	f := fn
	for f != nil && f.Pkg == nil && f.Parent() != nil {
		f = f.Parent()
	}
	if f != nil && f.Pkg != nil {
		return f.Pkg.Pkg
	}
	if fn.Object() != nil {
		return fn.Object().Pkg()
	}
	if r := fn.Signature.Recv(); r != nil {
		t := r.Type()
		if p, ok := t.(*types.Pointer); ok {
			t = p.Elem()
		}
		if n, ok := t.(*types.Named); ok {
			return n.Obj().Pkg()
		}
	}
	return nil
}

func (st *fstate) chaTargets(in ssa.CallInstruction, args []ssa.Value) []target {
	var ts []target
	vis := st.fa.visiblePkgs(st.fn)
	if node := st.fa.cg.Nodes[st.fn]; node != nil {
		for _, e := range node.Out {
			if e.Site == in && e.Callee.Func != nil {
				if vis != nil && inRepo(e.Callee.Func) {
					if p := pkgOfFunc(e.Callee.Func); p != nil && !vis[p] && !st.fa.rootVis[p] {
						continue
					}
				}
				ts = append(ts, target{fn: e.Callee.Func, args: args})
			}
		}
	}
	sort.Slice(ts, func(i, j int) bool { return ts[i].fn.String() < ts[j].fn.String() })
	var out []target
	haveExt := false
	for _, t := range ts {
		if !inRepo(t.fn) {
			if haveExt {
				continue
			}
			haveExt = true
		}
		out = append(out, t)
	}
	return out
}

func (st *fstate) targets(in ssa.CallInstruction) []target {
	cm := in.Common()
	if cm.IsInvoke() {
		return st.chaTargets(in, append([]ssa.Value{cm.Value}, cm.Args...))
	}
	switch v := cm.Value.(type) {
	case *ssa.Function:
		return []target{{fn: v, args: cm.Args}}
	case *ssa.MakeClosure:
		return []target{{fn: v.Fn.(*ssa.Function), args: cm.Args, free: v.Bindings}}
	case *ssa.Parameter:
		for i, p := range st.fn.Params {
			if p == v {
				if cf := st.ctx[i]; cf != nil {
					// the closure object is parameter i; its captured variables are its "closure#j" content
					var fo []Org
					for j := range cf.FreeVars {
						fo = append(fo, st.loadFrom(st.org(p), fmt.Sprintf("closure#%d", j)))
					}
					return []target{{fn: cf, args: cm.Args, freeOrgs: fo}}
				}
			}
		}
	}
	if mc := st.closureOf(cm.Value, 0); mc != nil {
		return []target{{fn: mc.Fn.(*ssa.Function), args: cm.Args, free: mc.Bindings}}
	}
	if cf := st.funcOfArg(cm.Value); cf != nil {
		// known through the context: captured variables are the closure object's content
		var fo []Org
		for j := range cf.FreeVars {
			fo = append(fo, st.loadFrom(st.org(cm.Value), fmt.Sprintf("closure#%d", j)))
		}
		return []target{{fn: cf, args: cm.Args, freeOrgs: fo}}
	}
	ts := st.chaTargets(in, cm.Args)
	if len(ts) > 60 {
		return nil
	}
	return ts
}

func (st *fstate) closureOf(v ssa.Value, depth int) *ssa.MakeClosure {
	if depth > 3 {
		return nil
	}
	switch x := v.(type) {
	case *ssa.MakeClosure:
		return x
	case *ssa.ChangeType:
		return st.closureOf(x.X, depth+1)
	case *ssa.Phi:
		var found *ssa.MakeClosure
		for _, e := range x.Edges {
			m := st.closureOf(e, depth+1)
			if m == nil || (found != nil && found != m) {
				return nil
			}
			found = m
		}
		return found
	case *ssa.UnOp:
		if x.Op == token.MUL {
			if a, ok := x.X.(*ssa.Alloc); ok {
				var found *ssa.MakeClosure
				for _, r := range *a.Referrers() {
					if s, ok := r.(*ssa.Store); ok && s.Addr == a {
						m := st.closureOf(s.Val, depth+1)
						if m == nil || (found != nil && found != m) {
							return nil
						}
						found = m
					}
				}
				return found
			}
		}
	}
	return nil
}

func (st *fstate) funcOfArg(a ssa.Value) *ssa.Function {
	switch f := a.(type) {
	case *ssa.Function:
		return f
	case *ssa.MakeClosure:
		return f.Fn.(*ssa.Function)
	case *ssa.ChangeType:
		return st.funcOfArg(f.X)
	case *ssa.Parameter:
		for j, p := range st.fn.Params {
			if p == f && st.ctx[j] != nil {
				return st.ctx[j]
			}
		}
	case *ssa.FreeVar:
		for j, fv := range st.fn.FreeVars {
			if fv == f && st.ctx[len(st.fn.Params)+j] != nil {
				return st.ctx[len(st.fn.Params)+j]
			}
		}
	case *ssa.UnOp:
		if f.Op == token.MUL {
			// a captured or spilled function variable: the cell it is read from
			switch cell := f.X.(type) {
			case *ssa.FreeVar:
				return st.funcOfArg(cell)
			case *ssa.Alloc:
				return st.funcOfArg(cell)
			}
		}
	case *ssa.Alloc:
		var found *ssa.Function
		for _, r := range *f.Referrers() {
			if sto, ok := r.(*ssa.Store); ok && sto.Addr == f {
				g := st.funcOfArg(sto.Val)
				if g == nil || (found != nil && found != g) {
					return nil
				}
				found = g
			}
		}
		return found
	}
	if mc := st.closureOf(a, 0); mc != nil {
		return mc.Fn.(*ssa.Function)
	}
	return nil
}

func (st *fstate) applyCallee(in ssa.CallInstruction, res ssa.Value, callee *ssa.Function, args []ssa.Value, free []ssa.Value, freeOrgs []Org, spawned bool) bool {
	external := len(callee.Blocks) == 0 || !inRepo(callee)
	var cctx funcCtx
	for i, a := range args {
		if _, ok := a.Type().Underlying().(*types.Signature); ok {
			if cfn := st.funcOfArg(a); cfn != nil {
				if cctx == nil {
					cctx = funcCtx{}
				}
				cctx[i] = cfn
			}
		}
	}
	// function-typed captured variables of a closure being called
	for j, b := range free {
		pt, ok := b.Type().Underlying().(*types.Pointer)
		if !ok {
			continue
		}
		if _, isFn := pt.Elem().Underlying().(*types.Signature); !isFn {
			continue
		}
		if cfn := st.funcOfArg(b); cfn != nil {
			if cctx == nil {
				cctx = funcCtx{}
			}
			cctx[len(callee.Params)+j] = cfn
		}
	}
	ch := false
	if external {
		// external functions call the closures they are given (sort.Slice less, sync.Map.Range, ...)
		for _, a := range args {
			if _, ok := a.Type().Underlying().(*types.Signature); !ok {
				continue
			}
			if mc := st.closureOf(a, 0); mc != nil {
				if st.applyCallee(in, nil, mc.Fn.(*ssa.Function), nil, mc.Bindings, nil, spawned) {
					ch = true
				}
			} else if f, ok := a.(*ssa.Function); ok {
				if st.applyCallee(in, nil, f, nil, nil, nil, spawned) {
					ch = true
				}
			}
		}
		cctx = nil
	}
	cs := st.fa.summ(callee, cctx)
	locked := st.locked[in.(ssa.Instruction)]
	nparams := len(callee.Params)
	if external {
		nparams = callee.Signature.Params().Len()
		if callee.Signature.Recv() != nil {
			nparams++
		}
	}
	argOrg := func(i int) Org {
		if i < nparams {
			if i < len(args) {
				return st.org(args[i])
			}
			return Org{Unknown: true}
		}
		j := i - nparams
		if j >= 0 && j < len(free) {
			return st.org(free[j])
		}
		if j >= 0 && j < len(freeOrgs) {
			return freeOrgs[j]
		}
		return Org{Unknown: true}
	}
	resolveCache := map[Obj]Org{}
	var resolve func(o Obj) Org
	resolveRaw := func(o Obj) Org {
		switch o.Region {
		case regGlobal:
			if o.Path != "" {
				return Org{Global: true, Par: map[ParPath]bool{{regGlobal, o.Path}: true}}
			}
			return Org{Global: true}
		case regUnknown:
			return Org{Unknown: true}
		case regSite:
			return siteOrg(o.Site)
		}
		cur := argOrg(o.Region)
		if o.Path == "" {
			return cur
		}
		for _, f := range strings.Split(o.Path, "/") {
			if f == "*" {
				cur = st.reach(cur)
				break
			}
			cur = st.loadFrom(cur, f)
		}
		return cur
	}
	resolve = func(o Obj) Org {
		if r, ok := resolveCache[o]; ok {
			return r
		}
		r := resolveRaw(o)
		resolveCache[o] = r
		return r
	}
	resolveSum := func(s SumOrg, freshSite ssa.Value) Org {
		o := Org{Global: s.Global, Unknown: s.Unknown}
		for p := range s.Par {
			if p.Idx == regGlobal {
				o, _ = joinOrg(o, Org{Global: true, Par: map[ParPath]bool{p: true}})
				continue
			}
			o, _ = joinOrg(o, resolve(Obj{Region: p.Idx, Path: p.Path}))
		}
		if len(s.Sites) > 0 {
			o, _ = joinOrg(o, Org{Sites: s.Sites})
		}
		if s.Fresh && freshSite != nil {
			o, _ = joinOrg(o, siteOrg(freshSite))
		}
		return o
	}
	for k, w := range cs.Writes {
		field := k.Field
		if field == "elem:sorted" && len(args) > 0 {
			at := args[0].Type()
			if mi, ok := args[0].(*ssa.MakeInterface); ok {
				at = mi.X.Type()
			}
			if slT, ok := at.Underlying().(*types.Slice); ok {
				field = "elem:" + shortType(slT.Elem())
			} else {
				field = "elem:sort.Interface(" + shortType(at) + ")"
			}
		}
		base := resolve(k.Obj).nonFresh()
		if os.Getenv("GV_FRAME_ORGS") == funcKey(st.fn) {
			fmt.Println("  APPLY write", field, k.Obj, "->", sumOf(base).String(), "callee", callee.String())
		}
		if !base.empty() {
			_, unsync := cs.Unsync[k]
			before := len(st.sum.Writes) + len(st.sum.Unsync)
			ww := w
			st.addWriteLazy(field, base, func() *Witness { return st.witness(in.Pos(), ww) }, locked || !unsync)
			if len(st.sum.Writes)+len(st.sum.Unsync) != before {
				ch = true
			}
		}
	}
	linkWitness := &Witness{Chain: []string{funcKey(callee)}}
	for k, fromSum := range cs.Links {
		to := resolve(k.Obj)
		from := resolveSum(*fromSum, nil)
		lw := cs.LinkWit[k]
		if lw == nil {
			lw = linkWitness
		}
		if st.store(k.Field, to, from, in.Pos(), lw, true) {
			ch = true
		}
	}
	for k, w := range cs.Unknowns {
		if _, ok := st.sum.Unknowns[k]; !ok {
			st.sum.Unknowns[k] = st.witness(in.Pos(), w)
			st.sum.version++; st.fa.changed = true
		}
	}
	if cs.Spawns && !st.sum.Spawns {
		st.sum.Spawns = true
		st.sum.version++; st.fa.changed = true
	}
	// objects created by the callee that outlive it: import their content
	for site, m := range cs.SiteContent {
		for f, c := range m {
			co := resolveSum(*c, nil)
			cm := st.content[site]
			if cm == nil {
				cm = map[string]Org{}
				st.content[site] = cm
			}
			n, c2 := joinOrg(cm[f], co)
			if c2 {
				cm[f] = n
				ch = true
			}
		}
	}
	if res != nil && isRefType(res.Type()) {
		o := resolveSum(cs.Ret, res)
		if st.setOrg(res, o) {
			ch = true
		}
	}
	return ch
}

// resliceBase: the pre-existing backing arrays that v certainly shares when v
// is (a phi of) a re-slice s[i:j] - appending to such a value writes in place.
func (st *fstate) resliceBase(v ssa.Value, depth int, seen map[ssa.Value]bool) Org {
	if depth > 5 || seen[v] {
		return Org{}
	}
	seen[v] = true
	switch x := v.(type) {
	case *ssa.Slice:
		if _, isSlice := x.X.Type().Underlying().(*types.Slice); isSlice {
			return st.org(x.X)
		}
	case *ssa.Phi:
		r := Org{}
		for _, e := range x.Edges {
			r, _ = joinOrg(r, st.resliceBase(e, depth+1, seen))
		}
		return r
	case *ssa.Call:
		if b, ok := x.Call.Value.(*ssa.Builtin); ok && b.Name() == "append" {
			return st.resliceBase(x.Call.Args[0], depth+1, seen)
		}
	}
	return Org{}
}

func (st *fstate) builtinCall(in ssa.CallInstruction, b *ssa.Builtin, res ssa.Value) bool {
	cm := in.Common()
	switch b.Name() {
	case "append":
		if res == nil {
			return false
		}
		o, _ := joinOrg(st.org(cm.Args[0]), siteOrg(res))
		ch := st.setOrg(res, o)
		if len(cm.Args) > 1 {
			elemT := "elem:?"
			if slT, ok := cm.Args[0].Type().Underlying().(*types.Slice); ok {
				elemT = "elem:" + shortType(slT.Elem())
				if !isRefType(slT.Elem()) {
					return ch
				}
			}
			val := st.loadFrom(st.org(cm.Args[1]), elemT)
			val, _ = joinOrg(val, st.loadFrom(st.org(cm.Args[0]), elemT))
			targets := []ssa.Value{res}
			for s := range st.org(cm.Args[0]).Sites {
				targets = append(targets, s)
			}
			for _, s := range targets {
				m := st.content[s]
				if m == nil {
					m = map[string]Org{}
					st.content[s] = m
				}
				n, c := joinOrg(m[elemT], val)
				if c {
					m[elemT] = n
					ch = true
				}
			}
			// appending to a slice that existed before the call may write its spare
			// capacity in place (s[:0] and s[:i] re-slices make that certain)
			st.fa.assumptions["append to a slice value that is not a re-slice is not counted as a write to its backing array (spare capacity is not observable through the old slice)"] = true
			if nf := st.resliceBase(cm.Args[0], 0, map[ssa.Value]bool{}).nonFresh(); !nf.empty() {
				w := st.witness(in.Pos(), nil)
				before := len(st.sum.Writes)
				st.addWrite(elemT, nf, w, st.locked[in.(ssa.Instruction)])
				if len(st.sum.Writes) != before {
					ch = true
				}
			}
		}
		return ch
	case "copy":
		elemT := "elem:?"
		if slT, ok := cm.Args[0].Type().Underlying().(*types.Slice); ok {
			elemT = "elem:" + shortType(slT.Elem())
		}
		val := Org{}
		if len(cm.Args) > 1 {
			val = st.loadFrom(st.org(cm.Args[1]), elemT)
		}
		return st.store(elemT, st.org(cm.Args[0]), val, in.Pos(), nil, st.locked[in.(ssa.Instruction)])
	case "delete":
		return st.store("map", st.org(cm.Args[0]), Org{}, in.Pos(), nil, st.locked[in.(ssa.Instruction)])
	}
	if res != nil && isRefType(res.Type()) {
		return st.setOrg(res, Org{Unknown: true})
	}
	return false
}

// externalSummary: assumed frames of functions outside the repository.
func (fa *FrameAnalysis) externalSummary(fn *ssa.Function, s *Summary) {
	name := fn.String()
	pkg := ""
	if fn.Pkg != nil {
		pkg = fn.Pkg.Pkg.Path()
	} else if fn.Object() != nil && fn.Object().Pkg() != nil {
		pkg = fn.Object().Pkg().Path()
	}
	w := &Witness{Chain: []string{funcKey(fn)}}
	sig := fn.Signature
	recvPtr := false
	if sig.Recv() != nil {
		_, recvPtr = sig.Recv().Type().Underlying().(*types.Pointer)
	}
	self := Obj{Region: 0}
	nargs := sig.Params().Len()
	if sig.Recv() != nil {
		nargs++
	}
	retFromArgs := func() {
		if sig.Results().Len() > 0 && isRefType(sig.Results()) {
			s.Ret.Fresh = true
			for i := 0; i < nargs; i++ {
				s.Ret.join(SumOrg{Par: map[ParPath]bool{{i, "*"}: true, {i, ""}: true}})
			}
		}
	}
	switch {
	case pkg == "sort" && (strings.HasPrefix(fn.Name(), "Slice") || fn.Name() == "Sort" || fn.Name() == "Stable" || fn.Name() == "Strings" || fn.Name() == "Ints" || fn.Name() == "Float64s"):
		s.Writes[WriteKey{"elem:sorted", self}] = w
		s.Unsync[WriteKey{"elem:sorted", self}] = w
		fa.assumptions["sort.* permutes the elements of its first argument and calls its less function"] = true
	case pkg == "reflect" && (fn.Name() == "Call" || strings.HasPrefix(fn.Name(), "Set")):
		s.Unknowns["reflect."+fn.Name()] = w
	case pkg == "sync" || pkg == "sync/atomic":
		if recvPtr {
			s.Writes[WriteKey{"sync:" + shortRecv(fn), self}] = w
		}
		if strings.Contains(name, "sync.Map") && (fn.Name() == "Store" || fn.Name() == "LoadOrStore" || fn.Name() == "Swap") {
			s.Links[WriteKey{"sync.Map", self}] = &SumOrg{Par: map[ParPath]bool{{1, ""}: true, {2, ""}: true}}
		}
		if strings.Contains(name, "sync.Map") && (fn.Name() == "Load" || fn.Name() == "LoadOrStore") {
			s.Ret.join(SumOrg{Par: map[ParPath]bool{{0, "sync.Map"}: true}})
		}
	case pkg == "regexp" || pkg == "time" || pkg == "reflect" || (pkg == "strings" && !strings.Contains(name, "Builder")) || pkg == "unicode" || pkg == "math/big" || pkg == "strconv" || pkg == "math" || pkg == "errors" || pkg == "html":
		if sig.Results().Len() > 0 && isRefType(sig.Results()) {
			s.Ret.Fresh = true
		}
		fa.assumptions["package "+pkg+": functions and methods do not modify their receiver or arguments"] = true
	case recvPtr:
		s.Writes[WriteKey{"ext:" + shortRecv(fn), self}] = w
		s.Unsync[WriteKey{"ext:" + shortRecv(fn), self}] = w
		retFromArgs()
		fa.assumptions["methods of external pointer types write only their receiver's own state ("+shortRecv(fn)+")"] = true
	default:
		retFromArgs()
		if (pkg == "fmt" && strings.HasPrefix(fn.Name(), "Fprint")) || (pkg == "io" && (fn.Name() == "WriteString" || fn.Name() == "Copy")) {
			s.Writes[WriteKey{"ext:io.Writer", self}] = w
			s.Unsync[WriteKey{"ext:io.Writer", self}] = w
		}
		if sig.Recv() != nil {
			if _, isIface := sig.Recv().Type().Underlying().(*types.Interface); isIface && (fn.Name() == "Write" || fn.Name() == "WriteString" || fn.Name() == "WriteFile") {
				s.Writes[WriteKey{"ext:" + shortRecv(fn), self}] = w
				s.Unsync[WriteKey{"ext:" + shortRecv(fn), self}] = w
			}
		}
	}
}

func shortRecv(fn *ssa.Function) string {
	if r := fn.Signature.Recv(); r != nil {
		return types.TypeString(r.Type(), func(p *types.Package) string { return p.Name() })
	}
	return "?"
}
