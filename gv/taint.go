package main

// Ghost-predicate engine (K4): a modular check that every value reaching a
// sink satisfies a predicate (html_safe, fname_safe). For each function in the
// analysed packages the engine derives from the SSA (a) what each result and
// each stored field value depends on (parameters, fields, or file content) and
// (b) which parameters and fields must satisfy the predicate because they flow
// to a sink un-sanitised. (b) is the derived contract: `requires pred(param)`
// on functions and a field invariant on struct fields, obtained from the code
// and never trusted: every call site and every store is an obligation. An
// obligation fails when file content (anything text-like that comes out of
// package gedcom or the query engine) meets a requirement.

import (
	"fmt"
	"go/constant"
	"go/token"
	"go/types"
	"regexp"
	"sort"
	"strings"

	"golang.org/x/tools/go/ssa"
)

func regexpMust(p string) *regexp.Regexp { return regexp.MustCompile(p) }

type srcKind int

const (
	srcParam srcKind = iota
	srcField
	srcTaint
)

type Src struct {
	Kind  srcKind
	Param int
	Name  string // field key or taint description
	Keys  bool   // for map-typed parameters: the keys rather than the values
}

type Deps map[Src]bool

func (d Deps) addAll(o Deps) bool {
	ch := false
	for s := range o {
		if !d[s] {
			d[s] = true
			ch = true
		}
	}
	return ch
}

type tWitness struct {
	Chain []string // from the requirement down to the primitive sink
	Sink  string
}

type taintSummary struct {
	fn   *ssa.Function
	Ret  []Deps
	Req  map[int]*tWitness // parameter index -> why it must satisfy the predicate
	ReqKeys map[int]*tWitness // map-typed parameter index -> why its keys must satisfy the predicate
	done bool
}

// PredicateSpec configures one ghost predicate.
type PredicateSpec struct {
	Name      string
	Prop      string
	Scope     func(fn *ssa.Function) bool // functions analysed (others are sources or externals)
	ConstSafe func(s string) bool         // is a string literal acceptable at a sink
	// Sink reports, for a call instruction, which argument indexes are sinks (with a description).
	Sink func(ta *TaintAnalysis, in ssa.CallInstruction) (args []int, desc string)
	// Sanitizer: the call returns a value satisfying the predicate whatever its arguments.
	Sanitizer func(ta *TaintAnalysis, callee *ssa.Function, in ssa.CallInstruction) bool
	// SafeSource: text produced by this function of a source package is acceptable (numbers only etc.).
	SafeSource func(callee *ssa.Function) bool
}

type TaintFinding struct {
	Name   string
	Fn     string
	Detail string
	Pos    string
}

type TaintAnalysis struct {
	ld       *Loaded
	spec     *PredicateSpec
	fa       *FrameAnalysis // for CHA targets
	sums     map[*ssa.Function]*taintSummary
	fieldReq map[string]*tWitness // field key -> must satisfy the predicate
	stores   map[string][]fieldStore
	findings map[string]*TaintFinding
	proved   map[string]bool
	changed  bool
	fns      []*ssa.Function
	assumptions map[string]bool
}

type fieldStore struct {
	fn   *ssa.Function
	deps Deps
	pos  token.Pos
}

func NewTaintAnalysis(ld *Loaded, spec *PredicateSpec) *TaintAnalysis {
	ta := &TaintAnalysis{ld: ld, spec: spec, sums: map[*ssa.Function]*taintSummary{}, fieldReq: map[string]*tWitness{},
		stores: map[string][]fieldStore{}, findings: map[string]*TaintFinding{}, proved: map[string]bool{}, assumptions: map[string]bool{}}
	ta.fa = NewFrameAnalysis(ld)
	for _, fn := range ld.AllFns {
		if len(fn.Blocks) > 0 && spec.Scope(fn) {
			ta.fns = append(ta.fns, fn)
		}
	}
	return ta
}

func (ta *TaintAnalysis) Run() {
	for iter := 0; iter < 40; iter++ {
		ta.changed = false
		for _, fn := range ta.fns {
			ta.analyse(fn)
		}
		if !ta.changed {
			break
		}
	}
	// final pass: record obligations (proved and refuted) with stable requirements
	ta.findings = map[string]*TaintFinding{}
	ta.proved = map[string]bool{}
	for _, fn := range ta.fns {
		ta.analyse(fn)
	}
}

func (ta *TaintAnalysis) sum(fn *ssa.Function) *taintSummary {
	s := ta.sums[fn]
	if s == nil {
		s = &taintSummary{fn: fn, Req: map[int]*tWitness{}, ReqKeys: map[int]*tWitness{}}
		n := fn.Signature.Results().Len()
		for i := 0; i < n; i++ {
			s.Ret = append(s.Ret, Deps{})
		}
		ta.sums[fn] = s
	}
	return s
}

// ---------------------------------------------------------------------------

func pkgPathOf(fn *ssa.Function) string {
	if p := pkgOfFunc(fn); p != nil {
		return p.Path()
	}
	return ""
}

func canCarryText(t types.Type) bool {
	switch u := t.Underlying().(type) {
	case *types.Basic:
		// text, and the integer types that hold single characters (rune, byte)
		return u.Info()&types.IsString != 0 || u.Kind() == types.Int32 || u.Kind() == types.Uint8 || u.Kind() == types.UntypedRune || u.Kind() == types.UntypedNil
	case *types.Slice:
		return canCarryText(u.Elem())
	case *types.Array:
		return canCarryText(u.Elem())
	case *types.Map:
		return canCarryText(u.Key()) || canCarryText(u.Elem())
	case *types.Interface:
		return true
	case *types.Pointer:
		if b, ok := u.Elem().Underlying().(*types.Basic); ok {
			return b.Info()&types.IsString != 0
		}
		if _, ok := u.Elem().Underlying().(*types.Array); ok {
			return canCarryText(u.Elem())
		}
		if _, ok := u.Elem().Underlying().(*types.Slice); ok {
			return canCarryText(u.Elem())
		}
		return false
	case *types.Tuple:
		for i := 0; i < u.Len(); i++ {
			if canCarryText(u.At(i).Type()) {
				return true
			}
		}
	}
	return false
}

type tstate struct {
	ta    *TaintAnalysis
	fn    *ssa.Function
	sum   *taintSummary
	deps  map[ssa.Value]Deps
	extra map[ssa.Value]Deps // containers: what was stored into them (map values, slice elements)
	keys  map[ssa.Value]Deps // maps: what was used as a key
	ch    bool
}

func (ts *tstate) get(v ssa.Value) Deps {
	switch x := v.(type) {
	case *ssa.Const:
		if x.Value != nil && x.Value.Kind() == constant.String && !ts.ta.spec.ConstSafe(constant.StringVal(x.Value)) {
			return Deps{Src{Kind: srcTaint, Name: "constant " + strconvQuoteShort(constant.StringVal(x.Value))}: true}
		}
		return nil
	case *ssa.Function, *ssa.Builtin:
		return nil
	case *ssa.Global:
		return nil
	}
	d := ts.deps[v]
	if e := ts.extra[v]; len(e) > 0 {
		if d == nil {
			return e
		}
		m := Deps{}
		m.addAll(d)
		m.addAll(e)
		return m
	}
	return d
}

func strconvQuoteShort(s string) string {
	if len(s) > 24 {
		s = s[:24] + "..."
	}
	return fmt.Sprintf("%q", s)
}

func (ts *tstate) add(v ssa.Value, d Deps) {
	if len(d) == 0 {
		return
	}
	cur := ts.deps[v]
	if cur == nil {
		cur = Deps{}
		ts.deps[v] = cur
	}
	if cur.addAll(d) {
		ts.ch = true
	}
}

func (ts *tstate) addExtra(v ssa.Value, d Deps) {
	if len(d) == 0 {
		return
	}
	cur := ts.extra[v]
	if cur == nil {
		cur = Deps{}
		ts.extra[v] = cur
	}
	if cur.addAll(d) {
		ts.ch = true
	}
}

// root finds the container a store through addr lands in.
func containerRoot(addr ssa.Value) ssa.Value {
	for i := 0; i < 6; i++ {
		switch a := addr.(type) {
		case *ssa.IndexAddr:
			addr = a.X
		case *ssa.Slice:
			addr = a.X
		default:
			return addr
		}
	}
	return addr
}

func tFieldKey(fa *ssa.FieldAddr) (string, types.Type) {
	pt, ok := fa.X.Type().Underlying().(*types.Pointer)
	if !ok {
		return "?", nil
	}
	stT, ok := pt.Elem().Underlying().(*types.Struct)
	if !ok {
		return "?", nil
	}
	return typeName(pt.Elem()) + "." + stT.Field(fa.Field).Name(), pt.Elem()
}

func typeInScopePkg(t types.Type, scope func(string) bool) bool {
	if n, ok := t.(*types.Named); ok && n.Obj().Pkg() != nil {
		return scope(n.Obj().Pkg().Path())
	}
	return false
}

func (ta *TaintAnalysis) analyse(fn *ssa.Function) {
	sum := ta.sum(fn)
	ts := &tstate{ta: ta, fn: fn, sum: sum, deps: map[ssa.Value]Deps{}, extra: map[ssa.Value]Deps{}, keys: map[ssa.Value]Deps{}}
	for i, p := range fn.Params {
		if canCarryText(p.Type()) {
			ts.deps[p] = Deps{Src{Kind: srcParam, Param: i}: true}
		}
	}
	for i, fv := range fn.FreeVars {
		// captured variables: parameters after the declared ones
		ts.deps[fv] = Deps{Src{Kind: srcParam, Param: len(fn.Params) + i}: true}
	}
	for iter := 0; iter < 30; iter++ {
		ts.ch = false
		for _, b := range fn.Blocks {
			for _, in := range b.Instrs {
				ts.transfer(in, false)
			}
		}
		if !ts.ch {
			break
		}
	}
	// requirements and results with final dependencies
	for _, b := range fn.Blocks {
		for _, in := range b.Instrs {
			ts.transfer(in, true)
		}
	}
}

func (ts *tstate) scopeType(t types.Type) bool {
	// a struct type declared in an analysed package
	if p, ok := t.Underlying().(*types.Pointer); ok {
		t = p.Elem()
	}
	n, ok := t.(*types.Named)
	if !ok || n.Obj().Pkg() == nil {
		return false
	}
	path := n.Obj().Pkg().Path()
	return strings.HasPrefix(path, repoModule+"/html") || path == repoModule+"/q" || path == repoModule+"/cmd/gedcom"
}

func (ts *tstate) transfer(in ssa.Instruction, final bool) {
	switch x := in.(type) {
	case *ssa.Phi:
		for _, e := range x.Edges {
			ts.add(x, ts.get(e))
		}
	case *ssa.ChangeType:
		ts.add(x, ts.get(x.X))
	case *ssa.ChangeInterface:
		ts.add(x, ts.get(x.X))
	case *ssa.Convert:
		ts.add(x, ts.get(x.X))
	case *ssa.MakeInterface:
		ts.add(x, ts.get(x.X))
		// a value of a source-package type turned into an interface may be printed
		if ts.isSourceType(x.X.Type()) && !ts.numericOnlyType(x.X.Type()) {
			ts.add(x, Deps{Src{Kind: srcTaint, Name: "text of " + typeName(x.X.Type())}: true})
		}
	case *ssa.TypeAssert:
		ts.add(x, ts.get(x.X))
	case *ssa.Extract:
		if nx, ok := x.Tuple.(*ssa.Next); ok && !nx.IsString {
			if rg, ok := nx.Iter.(*ssa.Range); ok {
				if _, isMap := rg.X.Type().Underlying().(*types.Map); isMap {
					if x.Index == 1 {
						ts.add(x, ts.mapKeyDeps(rg.X))
					} else {
						ts.add(x, ts.get(rg.X))
					}
					return
				}
			}
		}
		ts.add(x, ts.get(x.Tuple))
	case *ssa.BinOp:
		if x.Op == token.ADD || x.Op == token.SUB || x.Op == token.OR || x.Op == token.AND || x.Op == token.XOR {
			ts.add(x, ts.get(x.X))
			ts.add(x, ts.get(x.Y))
		}
	case *ssa.UnOp:
		switch x.Op {
		case token.MUL:
			ts.add(x, ts.loadDeps(x.X, x.Type()))
		case token.ARROW:
			ts.add(x, ts.get(x.X))
		default:
			ts.add(x, ts.get(x.X))
		}
	case *ssa.Index:
		ts.add(x, ts.get(x.X))
	case *ssa.IndexAddr:
		ts.add(x, ts.get(x.X))
	case *ssa.Lookup:
		ts.add(x, ts.get(x.X))
	case *ssa.Slice:
		ts.add(x, ts.get(x.X))
	case *ssa.Field:
		if stT, ok := x.X.Type().Underlying().(*types.Struct); ok && canCarryText(x.Type()) {
			if ts.scopeType(x.X.Type()) {
				ts.add(x, Deps{Src{Kind: srcField, Name: typeName(x.X.Type()) + "." + stT.Field(x.Field).Name()}: true})
			} else if ts.isSourceType(x.X.Type()) {
				ts.add(x, Deps{Src{Kind: srcTaint, Name: "field of " + typeName(x.X.Type())}: true})
			} else {
				ts.add(x, ts.get(x.X))
			}
		}
	case *ssa.FieldAddr:
		// address only; loads handled in UnOp
	case *ssa.Range:
		ts.add(x, ts.get(x.X))
	case *ssa.Next:
		ts.add(x, ts.get(x.Iter))
	case *ssa.MakeClosure:
		// captured values are the closure's extra parameters: checked when the closure is analysed
		cfn := x.Fn.(*ssa.Function)
		if final && ts.ta.spec.Scope(cfn) {
			cs := ts.ta.sum(cfn)
			for i, b := range x.Bindings {
				if w := cs.Req[len(cfn.Params)+i]; w != nil {
					ts.require(ts.cellOrValueDeps(b), w, fmt.Sprintf("captured variable %s of %s", cfn.FreeVars[i].Name(), funcKey(cfn)), x.Pos())
				}
			}
		}
	case *ssa.Store:
		d := ts.get(x.Val)
		switch a := x.Addr.(type) {
		case *ssa.FieldAddr:
			key, owner := tFieldKey(a)
			if owner != nil && canCarryText(x.Val.Type()) {
				if final {
					ts.ta.recordStore(key, ts.fn, d, x.Pos())
					if w := ts.ta.fieldReq[key]; w != nil {
						ts.require(d, w, "field "+key, x.Pos())
					}
					if _, isMap := x.Val.Type().Underlying().(*types.Map); isMap {
						kd := ts.mapKeyDeps(x.Val)
						ts.ta.recordStore(key+"#keys", ts.fn, kd, x.Pos())
						if w := ts.ta.fieldReq[key+"#keys"]; w != nil {
							ts.require(kd, w, "keys of field "+key, x.Pos())
						}
					}
				}
			}
		case *ssa.Alloc:
			ts.addExtra(a, d)
		default:
			root := containerRoot(x.Addr)
			ts.addExtra(root, d)
			// a store into an element of a slice loaded from a field taints that field
			if u, ok := root.(*ssa.UnOp); ok && u.Op == token.MUL {
				if fa, ok := u.X.(*ssa.FieldAddr); ok && final {
					key, _ := tFieldKey(fa)
					ts.ta.recordStore(key, ts.fn, d, x.Pos())
					if w := ts.ta.fieldReq[key]; w != nil {
						ts.require(d, w, "field "+key, x.Pos())
					}
				}
			}
		}
	case *ssa.MapUpdate:
		d := Deps{}
		d.addAll(ts.get(x.Value))
		root := x.Map
		ts.addExtra(root, d)
		if kd := ts.get(x.Key); len(kd) > 0 {
			cur := ts.keys[root]
			if cur == nil {
				cur = Deps{}
				ts.keys[root] = cur
			}
			if cur.addAll(kd) {
				ts.ch = true
			}
			if u, ok := root.(*ssa.UnOp); ok && u.Op == token.MUL {
				if fa, ok := u.X.(*ssa.FieldAddr); ok && final {
					key, _ := tFieldKey(fa)
					ts.ta.recordStore(key+"#keys", ts.fn, kd, x.Pos())
					if w := ts.ta.fieldReq[key+"#keys"]; w != nil {
						ts.require(kd, w, "keys of field "+key, x.Pos())
					}
				}
			}
		}
		if u, ok := root.(*ssa.UnOp); ok && u.Op == token.MUL {
			if fa, ok := u.X.(*ssa.FieldAddr); ok && final {
				key, _ := tFieldKey(fa)
				ts.ta.recordStore(key, ts.fn, d, x.Pos())
				if w := ts.ta.fieldReq[key]; w != nil {
					ts.require(d, w, "field "+key, x.Pos())
				}
			}
		}
	case *ssa.Return:
		for i, r := range x.Results {
			if i < len(ts.sum.Ret) && ts.sum.Ret[i].addAll(ts.get(r)) {
				ts.ta.changed = true
			}
		}
	case *ssa.Call:
		ts.call(x, x, final)
	case *ssa.Go:
		ts.call(x, nil, final)
	case *ssa.Defer:
		ts.call(x, nil, final)
	}
}

// mapKeyDeps: what the keys of a map value depend on.
func (ts *tstate) mapKeyDeps(m ssa.Value) Deps {
	d := Deps{}
	if k, ok := ts.keys[m]; ok {
		d.addAll(k)
	}
	switch x := m.(type) {
	case *ssa.MakeMap:
		return d
	case *ssa.Parameter:
		for i, p := range ts.fn.Params {
			if p == x {
				d[Src{Kind: srcParam, Param: i, Keys: true}] = true
			}
		}
		return d
	case *ssa.UnOp:
		if x.Op == token.MUL {
			if fa, ok := x.X.(*ssa.FieldAddr); ok {
				key, owner := tFieldKey(fa)
				if owner != nil && ts.scopeType(owner) {
					d[Src{Kind: srcField, Name: key + "#keys"}] = true
					return d
				}
			}
		}
	case *ssa.Phi:
		for _, e := range x.Edges {
			d.addAll(ts.mapKeyDeps(e))
		}
		return d
	}
	d.addAll(ts.deps[m])
	return d
}

func (ts *tstate) cellOrValueDeps(v ssa.Value) Deps {
	d := Deps{}
	d.addAll(ts.get(v))
	if a, ok := v.(*ssa.Alloc); ok {
		d.addAll(ts.extra[a])
	}
	return d
}

func (ta *TaintAnalysis) recordStore(key string, fn *ssa.Function, d Deps, pos token.Pos) {
	if len(d) == 0 {
		return
	}
	cp := Deps{}
	cp.addAll(d)
	ta.stores[key] = append(ta.stores[key], fieldStore{fn, cp, pos})
}

func (ts *tstate) isSourceType(t types.Type) bool {
	if p, ok := t.Underlying().(*types.Pointer); ok {
		t = p.Elem()
	}
	if s, ok := t.Underlying().(*types.Slice); ok {
		return ts.isSourceType(s.Elem())
	}
	n, ok := t.(*types.Named)
	if !ok || n.Obj().Pkg() == nil {
		return false
	}
	return n.Obj().Pkg().Path() == repoModule
}

func (ts *tstate) numericOnlyType(t types.Type) bool {
	if p, ok := t.Underlying().(*types.Pointer); ok {
		t = p.Elem()
	}
	switch typeName(t) {
	case "gedcom.Age", "gedcom.Duration", "gedcom.DateRangeComparison", "gedcom.AgeConstraint", "gedcom.DateConstraint", "gedcom.Years":
		return true
	}
	if b, ok := t.Underlying().(*types.Basic); ok {
		return b.Info()&types.IsNumeric != 0 || b.Info()&types.IsBoolean != 0
	}
	return false
}

// loadDeps: what a value loaded from addr depends on.
func (ts *tstate) loadDeps(addr ssa.Value, t types.Type) Deps {
	switch a := addr.(type) {
	case *ssa.FieldAddr:
		if !canCarryText(t) {
			return nil
		}
		key, owner := tFieldKey(a)
		if owner != nil && ts.scopeType(owner) {
			return Deps{Src{Kind: srcField, Name: key}: true}
		}
		if owner != nil && ts.isSourceType(owner) {
			return Deps{Src{Kind: srcTaint, Name: "field " + key}: true}
		}
		return ts.get(a.X)
	case *ssa.Alloc:
		return ts.extra[a]
	case *ssa.Global:
		if !canCarryText(t) {
			return nil
		}
		return Deps{Src{Kind: srcField, Name: "global:" + a.Pkg.Pkg.Name() + "." + a.Name()}: true}
	case *ssa.IndexAddr:
		return ts.get(containerRoot(a))
	case *ssa.FreeVar:
		return ts.get(a)
	}
	return ts.get(addr)
}

// require: every dependency in d must satisfy the predicate because of w.
func (ts *tstate) require(d Deps, w *tWitness, what string, pos token.Pos) {
	name := fmt.Sprintf("%s#%s:%s", funcKey(ts.fn), ts.ta.spec.Name, what)
	refuted := false
	for s := range d {
		switch s.Kind {
		case srcParam:
			tgt := ts.sum.Req
			if s.Keys {
				tgt = ts.sum.ReqKeys
			}
			if _, ok := tgt[s.Param]; !ok {
				tgt[s.Param] = &tWitness{Chain: append([]string{funcKey(ts.fn) + " (" + what + ")"}, w.Chain...), Sink: w.Sink}
				ts.ta.changed = true
			}
		case srcField:
			if _, ok := ts.ta.fieldReq[s.Name]; !ok {
				ts.ta.fieldReq[s.Name] = &tWitness{Chain: append([]string{funcKey(ts.fn) + " (" + what + " <- field " + s.Name + ")"}, w.Chain...), Sink: w.Sink}
				ts.ta.changed = true
			}
		case srcTaint:
			refuted = true
			fname := name + "@" + s.Name
			if _, ok := ts.ta.findings[fname]; !ok {
				ts.ta.findings[fname] = &TaintFinding{Name: fname, Fn: funcKey(ts.fn), Pos: ts.ta.ld.posString(pos),
					Detail: fmt.Sprintf("%s reaches %s without satisfying %s; path to the sink: %s -> %s", s.Name, what, ts.ta.spec.Name, strings.Join(w.Chain, " -> "), w.Sink)}
			}
		}
	}
	if !refuted {
		ts.ta.proved[name] = true
	}
}

func (ts *tstate) call(in ssa.CallInstruction, res ssa.Value, final bool) {
	cm := in.Common()
	ta := ts.ta
	argDeps := func(i int) Deps {
		if i < len(cm.Args) {
			return ts.get(cm.Args[i])
		}
		return nil
	}
	// primitive sinks
	if final {
		if args, desc := ta.spec.Sink(ta, in); len(args) > 0 {
			for _, i := range args {
				var d Deps
				if i < 0 {
					// a sink that fails by itself (a switched-off safety setting)
					ts.require(Deps{Src{Kind: srcTaint, Name: "the encoder's output"}: true}, &tWitness{Sink: desc}, "sink "+desc, in.Pos())
					continue
				}
				if cm.IsInvoke() {
					d = argDeps(i - 1)
				} else {
					d = argDeps(i)
				}
				ts.require(d, &tWitness{Sink: desc}, "sink "+desc, in.Pos())
			}
		}
	}
	if b, ok := cm.Value.(*ssa.Builtin); ok {
		if res == nil {
			return
		}
		switch b.Name() {
		case "append":
			for _, a := range cm.Args {
				ts.add(res, ts.get(a))
			}
		case "len", "cap":
		case "copy":
			if len(cm.Args) == 2 {
				ts.addExtra(containerRoot(cm.Args[0]), ts.get(cm.Args[1]))
			}
		default:
			for _, a := range cm.Args {
				ts.add(res, ts.get(a))
			}
		}
		return
	}
	var targets []*ssa.Function
	var recvFirst bool
	if cm.IsInvoke() {
		recvFirst = true
		// interface call: implementations in scope (requirements) or a source/external method
		if node := ta.fa.cg.Nodes[ts.fn]; node != nil {
			for _, e := range node.Out {
				if e.Site == in && e.Callee.Func != nil {
					targets = append(targets, e.Callee.Func)
				}
			}
		}
	} else {
		switch v := cm.Value.(type) {
		case *ssa.Function:
			targets = []*ssa.Function{v}
		case *ssa.MakeClosure:
			targets = []*ssa.Function{v.Fn.(*ssa.Function)}
		default:
			if node := ta.fa.cg.Nodes[ts.fn]; node != nil {
				for _, e := range node.Out {
					if e.Site == in && e.Callee.Func != nil {
						targets = append(targets, e.Callee.Func)
					}
				}
			}
		}
	}
	actual := func(i int) ssa.Value {
		if recvFirst {
			if i == 0 {
				return cm.Value
			}
			if i-1 < len(cm.Args) {
				return cm.Args[i-1]
			}
			return nil
		}
		if i < len(cm.Args) {
			return cm.Args[i]
		}
		return nil
	}
	allArgDeps := func() Deps {
		d := Deps{}
		if recvFirst {
			d.addAll(ts.get(cm.Value))
		}
		for _, a := range cm.Args {
			d.addAll(ts.get(a))
		}
		return d
	}
	if len(targets) == 0 {
		if res != nil && canCarryText(res.Type()) {
			ts.add(res, allArgDeps())
		}
		return
	}
	sort.Slice(targets, func(i, j int) bool { return targets[i].String() < targets[j].String() })
	seenExt := false
	for _, callee := range targets {
		switch {
		case ta.spec.Scope(callee) && len(callee.Blocks) > 0:
			cs := ta.sum(callee)
			if final {
				for i, w := range cs.Req {
					var d Deps
					if i < len(callee.Params) {
						if a := actual(i); a != nil {
							d = ts.get(a)
						}
					} else if mc, ok := cm.Value.(*ssa.MakeClosure); ok {
						j := i - len(callee.Params)
						if j < len(mc.Bindings) {
							d = ts.cellOrValueDeps(mc.Bindings[j])
						}
					}
					pname := fmt.Sprintf("arg%d", i)
					if i < len(callee.Params) {
						pname = callee.Params[i].Name()
					}
					ts.require(d, w, fmt.Sprintf("%s(%s)", funcKey(callee), pname), in.Pos())
				}
				for i, w := range cs.ReqKeys {
					if i < len(callee.Params) {
						if a := actual(i); a != nil {
							ts.require(ts.mapKeyDeps(a), w, fmt.Sprintf("%s(keys of %s)", funcKey(callee), callee.Params[i].Name()), in.Pos())
						}
					}
				}
			}
			if res != nil {
				for ri, rd := range cs.Ret {
					_ = ri
					for s := range rd {
						switch s.Kind {
						case srcParam:
							if a := actual(s.Param); a != nil {
								if s.Keys {
									ts.add(res, ts.mapKeyDeps(a))
								} else {
									ts.add(res, ts.get(a))
								}
							}
						default:
							ts.add(res, Deps{s: true})
						}
					}
				}
			}
		case pkgPathOf(callee) == repoModule || strings.HasPrefix(pkgPathOf(callee), repoModule):
			// a source package (or an unanalysed repo package): text results are file content
			if res != nil && canCarryText(res.Type()) && !resultNumericOnly(res.Type()) {
				if ta.spec.SafeSource != nil && ta.spec.SafeSource(callee) {
					ta.assumptions["source function with numeric-only text: "+funcKey(callee)] = true
				} else {
					name := funcKey(callee)
					if cm.IsInvoke() {
						name = ifaceMethodKey(cm)
					}
					ts.add(res, Deps{Src{Kind: srcTaint, Name: name}: true})
				}
			}
		default:
			if seenExt && cm.IsInvoke() {
				continue
			}
			seenExt = true
			if ta.spec.Sanitizer(ta, callee, in) {
				continue
			}
			if res != nil && canCarryText(res.Type()) {
				if externalNumeric(callee) {
					continue
				}
				ts.add(res, allArgDeps())
			}
		}
	}
}

func resultNumericOnly(t types.Type) bool {
	switch u := t.Underlying().(type) {
	case *types.Basic:
		return u.Info()&types.IsString == 0
	case *types.Tuple:
		for i := 0; i < u.Len(); i++ {
			if !resultNumericOnly(u.At(i).Type()) {
				return false
			}
		}
		return true
	}
	return false
}

func externalNumeric(fn *ssa.Function) bool {
	p := pkgPathOf(fn)
	switch p {
	case "strconv":
		return strings.HasPrefix(fn.Name(), "Itoa") || strings.HasPrefix(fn.Name(), "Format")
	}
	return false
}

// ---------------------------------------------------------------------------
// predicate: html_safe

func htmlScope(fn *ssa.Function) bool {
	p := pkgPathOf(fn)
	if p == repoModule+"/html" || p == repoModule+"/html/core" {
		return true
	}
	if p == repoModule+"/q" {
		// only the HTML formatter of the query engine
		if fn.Pkg != nil || fn.Parent() != nil {
			pos := fn.Pos()
			f := fn
			for !pos.IsValid() && f.Parent() != nil {
				f = f.Parent()
				pos = f.Pos()
			}
			if pos.IsValid() {
				file := fn.Prog.Fset.Position(pos).Filename
				// (the HTML formatter hands everything that is not a component to
				// the pretty JSON formatter, between <pre> and </pre>)
				return strings.HasSuffix(file, "html_formatter.go") || strings.HasSuffix(file, "pretty_json_formatter.go")
			}
		}
		return false
	}
	if p == repoModule {
		pos := fn.Pos()
		if pos.IsValid() {
			file := fn.Prog.Fset.Position(pos).Filename
			return strings.HasSuffix(file, "/warnings.go")
		}
	}
	return false
}

func htmlSpec() *PredicateSpec {
	return &PredicateSpec{
		Name:      "html-safe",
		Prop:      "C18",
		Scope:     htmlScope,
		ConstSafe: func(s string) bool { return true }, // literals are the markup templates themselves
		Sink: func(ta *TaintAnalysis, in ssa.CallInstruction) ([]int, string) {
			cm := in.Common()
			if cm.IsInvoke() && cm.Method.Name() == "Write" {
				if n, ok := cm.Value.Type().(*types.Named); ok && n.Obj().Pkg() != nil && n.Obj().Pkg().Path() == "io" && n.Obj().Name() == "Writer" {
					return []int{1}, "io.Writer.Write"
				}
			}
			if f, ok := cm.Value.(*ssa.Function); ok {
				switch f.String() {
				case "(*encoding/json.Encoder).SetEscapeHTML":
					// a JSON encoder that writes into a page must keep escaping
					// <, > and &: anything but the constant true is a failed sink
					if len(cm.Args) == 2 {
						if c, ok := cm.Args[1].(*ssa.Const); ok && c.Value != nil && constant.BoolVal(c.Value) {
							return nil, ""
						}
					}
					return []int{-1}, "json.Encoder.SetEscapeHTML(on): HTML escaping of the JSON text must stay on"
				case "(*os.File).Write", "(*os.File).WriteString", "(*bufio.Writer).WriteString", "(*bufio.Writer).Write", "io.WriteString":
					return []int{1}, f.String()
				case "fmt.Fprintf", "fmt.Fprint", "fmt.Fprintln":
					var idx []int
					for i := 1; i < len(cm.Args); i++ {
						idx = append(idx, i)
					}
					return idx, f.String()
				}
			}
			return nil, ""
		},
		Sanitizer: func(ta *TaintAnalysis, callee *ssa.Function, in ssa.CallInstruction) bool {
			switch callee.String() {
			case "html.EscapeString", "html/template.HTMLEscapeString", "net/url.QueryEscape", "net/url.PathEscape":
				ta.assumptions[callee.String()+" returns html_safe text"] = true
				return true
			case "encoding/json.Marshal", "encoding/json.MarshalIndent", "(*encoding/json.Encoder).Encode":
				// encoding/json escapes <, > and & inside strings unless told not to
				// (SetEscapeHTML(false) is a failed sink above). The quotes of the
				// JSON strings stay: the text is only ever written as element
				// content (<pre>), never into an attribute.
				ta.assumptions[callee.String()+" escapes <, > and & (its default; safe as element content, written inside <pre> only)"] = true
				return true
			}
			if sanitizingReplacerCall(ta, callee, in, []string{"&", "<", ">", `"`}) {
				return true
			}
			return sanitizingRegexpCall(ta, callee, in, `<>"'&`)
		},
		SafeSource: func(callee *ssa.Function) bool {
			switch funcKey(callee) {
			case "gedcom.Age.String", "gedcom.Duration.String", "gedcom.Age.Years", "gedcom.NewNumber":
				return true
			}
			return false
		},
	}
}

// sanitizingRegexpCall: re.ReplaceAllString(src, repl) where re is a
// package-level regexp whose pattern is a negated class not containing any of
// the forbidden characters, with a constant safe replacement: the result only
// contains characters outside the forbidden set.
func sanitizingRegexpCall(ta *TaintAnalysis, callee *ssa.Function, in ssa.CallInstruction, forbidden string) bool {
	if callee.String() != "(*regexp.Regexp).ReplaceAllString" {
		return false
	}
	cm := in.Common()
	if len(cm.Args) != 3 {
		return false
	}
	u, ok := cm.Args[0].(*ssa.UnOp)
	if !ok {
		return false
	}
	g, ok := u.X.(*ssa.Global)
	if !ok {
		return false
	}
	pat, ok := regexpPatternOf(g)
	if !ok || !strings.HasPrefix(pat, "[^") {
		return false
	}
	end := strings.Index(pat, "]")
	if end < 0 || strings.Trim(pat[end+1:], "+*") != "" {
		return false
	}
	class := pat[2:end]
	if strings.ContainsAny(class, forbidden) || strings.Contains(class, "\\") {
		return false
	}
	if c, ok := cm.Args[2].(*ssa.Const); !ok || c.Value == nil || strings.ContainsAny(constant.StringVal(c.Value), forbidden) {
		return false
	}
	ta.assumptions[fmt.Sprintf("regexp %s (%q).ReplaceAllString keeps only characters of its class", g.Name(), pat)] = true
	return true
}

// regexpPatternOf finds the literal pattern of `var x = regexp.MustCompile("...")`.
func regexpPatternOf(g *ssa.Global) (string, bool) {
	initFn := g.Pkg.Func("init")
	if initFn == nil {
		return "", false
	}
	for _, b := range initFn.Blocks {
		for _, in := range b.Instrs {
			st, ok := in.(*ssa.Store)
			if !ok || st.Addr != g {
				continue
			}
			call, ok := st.Val.(*ssa.Call)
			if !ok {
				return "", false
			}
			f, ok := call.Call.Value.(*ssa.Function)
			if !ok || f.String() != "regexp.MustCompile" || len(call.Call.Args) != 1 {
				return "", false
			}
			c, ok := call.Call.Args[0].(*ssa.Const)
			if !ok || c.Value == nil {
				return "", false
			}
			return constant.StringVal(c.Value), true
		}
	}
	return "", false
}

// sanitizingReplacerCall: r.Replace(s) where r is a package-level
// strings.NewReplacer(...) with constant arguments that replaces every one of
// the characters in `must` by something not containing them raw.
func sanitizingReplacerCall(ta *TaintAnalysis, callee *ssa.Function, in ssa.CallInstruction, must []string) bool {
	if callee.String() != "(*strings.Replacer).Replace" {
		return false
	}
	cm := in.Common()
	if len(cm.Args) != 2 {
		return false
	}
	u, ok := cm.Args[0].(*ssa.UnOp)
	if !ok {
		return false
	}
	g, ok := u.X.(*ssa.Global)
	if !ok {
		return false
	}
	initFn := g.Pkg.Func("init")
	if initFn == nil {
		return false
	}
	var pairs []string
	found := false
	for _, b := range initFn.Blocks {
		for _, ins := range b.Instrs {
			st, ok := ins.(*ssa.Store)
			if !ok || st.Addr != g {
				continue
			}
			call, ok := st.Val.(*ssa.Call)
			if !ok {
				return false
			}
			f, ok := call.Call.Value.(*ssa.Function)
			if !ok || f.String() != "strings.NewReplacer" || len(call.Call.Args) != 1 {
				return false
			}
			// variadic: slice of a local array filled with constants
			sl, ok := call.Call.Args[0].(*ssa.Slice)
			if !ok {
				return false
			}
			arr, ok := sl.X.(*ssa.Alloc)
			if !ok {
				return false
			}
			vals := map[int64]string{}
			for _, r := range *arr.Referrers() {
				ia, ok := r.(*ssa.IndexAddr)
				if !ok {
					continue
				}
				idx, ok := ia.Index.(*ssa.Const)
				if !ok {
					return false
				}
				for _, r2 := range *ia.Referrers() {
					if s2, ok := r2.(*ssa.Store); ok {
						c, ok := s2.Val.(*ssa.Const)
						if !ok || c.Value == nil || c.Value.Kind() != constant.String {
							return false
						}
						vals[idx.Int64()] = constant.StringVal(c.Value)
					}
				}
			}
			for i := int64(0); i < int64(len(vals)); i++ {
				pairs = append(pairs, vals[i])
			}
			found = true
		}
	}
	if !found || len(pairs)%2 != 0 {
		return false
	}
	for _, m := range must {
		ok := false
		for i := 0; i+1 < len(pairs); i += 2 {
			if pairs[i] == m {
				ok = true
				// the replacement must not contain a raw forbidden character other than an entity's '&'
				for _, m2 := range must {
					if m2 != "&" && strings.Contains(pairs[i+1], m2) {
						ok = false
					}
				}
				if !strings.HasPrefix(pairs[i+1], "&") || !strings.HasSuffix(pairs[i+1], ";") {
					ok = false
				}
			}
		}
		if !ok {
			return false
		}
	}
	ta.assumptions[fmt.Sprintf("strings.Replacer %s replaces %v by character entities (read from its constant arguments)", g.Name(), must)] = true
	return true
}

// ---------------------------------------------------------------------------
// predicate: fname_safe (C19): a string is a plain file name inside the output
// directory: only [A-Za-z0-9_#-] and the ".html" the page functions add.

var fnameConstRe = regexpMust(`^[A-Za-z0-9_#.%-]*$`)

func fnameSpec() *PredicateSpec {
	return &PredicateSpec{
		Name: "fname-safe",
		Prop: "C19",
		Scope: func(fn *ssa.Function) bool {
			p := pkgPathOf(fn)
			return p == repoModule+"/html" || p == repoModule+"/html/core"
		},
		ConstSafe: func(s string) bool { return fnameConstRe.MatchString(s) && !strings.Contains(s, "..") },
		Sink: func(ta *TaintAnalysis, in ssa.CallInstruction) ([]int, string) {
			cm := in.Common()
			if f, ok := cm.Value.(*ssa.Function); ok {
				switch funcKey(f) {
				case "core.NewFile":
					return []int{0}, "core.NewFile(name)"
				}
			}
			return nil, ""
		},
		Sanitizer: func(ta *TaintAnalysis, callee *ssa.Function, in ssa.CallInstruction) bool {
			return sanitizingRegexpCall(ta, callee, in, `/.\`+"`"+`<>"'& `)
		},
		SafeSource: func(callee *ssa.Function) bool { return false },
	}
}
