package main

import (
	"encoding/json"
	"flag"
	"fmt"
	"os"
	"path/filepath"
	"sort"
	"strconv"
	"strings"
	"sync"
	"time"
)

// ObRecord is one obligation in evidence / baseline form.
type ObRecord struct {
	Name    string  `json:"name"`
	Kind    string  `json:"kind"`
	Fn      string  `json:"fn"`
	Status  string  `json:"status"` // proved | refuted | unknown | exhaustive | bounded | error
	Backend string  `json:"backend,omitempty"`
	Secs    float64 `json:"secs"`
	Detail  string  `json:"detail,omitempty"`
	Model   map[string]string `json:"model,omitempty"`
	Pos     string  `json:"pos,omitempty"`
	Bounded bool    `json:"bounded,omitempty"`
	Known   string  `json:"known,omitempty"`
	KnownProp string `json:"known_property,omitempty"`
	Cover   bool    `json:"cover,omitempty"`
	Replay  string  `json:"replay,omitempty"`
	Decisive bool   `json:"decisive,omitempty"` // a refutation by this back end counts even without a model (sound may-analysis)
	ReplayOutcome string `json:"replay_outcome,omitempty"`
	Trivial bool `json:"trivial,omitempty"` // syntactically true clause kept for its name
	Stale   string `json:"stale,omitempty"` // the function's contract names identifiers the function does not have: undecided, never an alarm
}

// Job is one unit of checking work contributing records to a property.
type JobResult struct {
	Records     []*ObRecord
	Functions   []string // functions under contract
	Assumed     []string
	Unsupported []string
	Inlined     []string
	Havocs      []string
	Errors      []string
	Bounded     []map[string]interface{}
	Samples     []interface{}
	Notes       []string
}

type Baseline struct {
	Obligations map[string]map[string]string `json:"obligations"` // property -> name -> status
	// Shapes: property -> function -> hash of its SSA with all variable names
	// erased (shape.go). A contract that names an identifier the function no
	// longer has is treated as stale (undecided, no alarm) only when the shape
	// is unchanged, i.e. the edit was a pure rename.
	Shapes map[string]map[string]string `json:"shapes,omitempty"`
}

func loadBaseline() *Baseline {
	b := &Baseline{Obligations: map[string]map[string]string{}}
	data, err := os.ReadFile(verifDir() + "/baseline_obligations.json")
	if err == nil {
		json.Unmarshal(data, b)
	}
	if b.Obligations == nil {
		b.Obligations = map[string]map[string]string{}
	}
	return b
}

func hasProp(props []string, p string) bool {
	for _, x := range props {
		if x == p {
			return true
		}
	}
	return false
}

type checkCtx struct {
	update bool
	ld     *Loaded
	cs     *ContractSet
	prop   string
	tier   string
	seed   int64
	opts   SolveOpts
	funcResults []*FuncResult
}

func cmdCheck(args []string) int {
	fs := flag.NewFlagSet("check", flag.ExitOnError)
	prop := fs.String("property", "", "property id (C01..C20)")
	tier := fs.String("tier", os.Getenv("VERIF_TIER"), "quick|thorough")
	update := fs.Bool("update-baseline", false, "rewrite the baseline for this property (maintainer only)")
	verbose := fs.Bool("v", false, "verbose")
	fs.Parse(args)
	if *tier == "" {
		*tier = "quick"
	}
	if *prop == "" {
		fmt.Fprintln(os.Stderr, "check: -property required")
		return 2
	}
	seed := int64(1)
	if s := os.Getenv("VERIF_SEED"); s != "" {
		if n, err := strconv.ParseInt(s, 10, 64); err == nil {
			seed = n
		}
	}
	start := time.Now()
	os.RemoveAll(filepath.Join(outDir(), "replays", *prop))
	ld, cs, err := loadAll()
	if err != nil {
		fmt.Fprintln(os.Stderr, "gv: load error:", err)
		// a tree that no longer loads cannot be verified: engine error
		return 2
	}
	if err := loadKnown(); err != nil {
		fmt.Fprintln(os.Stderr, "gv:", err)
		return 2
	}
	currentProp = *prop
	ctx := &checkCtx{ld: ld, cs: cs, prop: *prop, tier: *tier, seed: seed, update: *update}
	ctx.opts = SolveOpts{Timeout: 10 * time.Second}
	if *tier == "thorough" {
		ctx.opts = SolveOpts{Timeout: 60 * time.Second, AllThree: true}
	}

	total := &JobResult{}
	merge := func(j *JobResult) {
		if j == nil {
			return
		}
		total.Records = append(total.Records, j.Records...)
		total.Functions = append(total.Functions, j.Functions...)
		total.Assumed = append(total.Assumed, j.Assumed...)
		total.Unsupported = append(total.Unsupported, j.Unsupported...)
		total.Inlined = append(total.Inlined, j.Inlined...)
		total.Havocs = append(total.Havocs, j.Havocs...)
		total.Errors = append(total.Errors, j.Errors...)
		total.Bounded = append(total.Bounded, j.Bounded...)
		total.Samples = append(total.Samples, j.Samples...)
		total.Notes = append(total.Notes, j.Notes...)
	}
	merge(ctx.runSymbolic())
	merge(ctx.runFrames())
	merge(ctx.runPkgState())
	merge(ctx.runFieldInvScan())
	merge(ctx.runRxp())
	merge(ctx.runRxpWithin())
	for _, extra := range extraJobs[*prop] {
		merge(extra(ctx))
	}

	return ctx.report(total, *update, *verbose, start)
}

// currentProp is the property being checked ("" outside gv check).
var currentProp string

// extraJobs: property-specific back ends (frame, ghost predicates, regex
// decider, finite evaluation, bounded stand-ins) registered elsewhere.
var extraJobs = map[string][]func(*checkCtx) *JobResult{}

// runSymbolic verifies every function contract and lemma tagged with the property.
func (ctx *checkCtx) runSymbolic() *JobResult {
	jr := &JobResult{}
	var keys []string
	for k, c := range ctx.cs.Funcs {
		if hasProp(c.Props, ctx.prop) && !c.Extern {
			keys = append(keys, k)
		}
	}
	sort.Strings(keys)
	var results []*FuncResult
	var mu sync.Mutex
	var wg sync.WaitGroup
	sem := make(chan struct{}, 8)
	for _, k := range keys {
		ct := ctx.cs.Funcs[k]
		fn := ctx.ld.Funcs[k]
		if fn == nil {
			jr.Records = append(jr.Records, &ObRecord{Name: k + "#contract-target", Kind: "target", Fn: k, Status: "refuted",
				Detail: "function under contract no longer exists in /repo (" + ct.File + ")"})
			continue
		}
		wg.Add(1)
		go func(k string) {
			defer wg.Done()
			sem <- struct{}{}
			r := VerifyFunction(ctx.ld, ctx.cs, fn, ct)
			<-sem
			mu.Lock()
			results = append(results, r)
			mu.Unlock()
		}(k)
	}
	for _, lm := range ctx.cs.Lemmas {
		if !hasProp(lm.Props, ctx.prop) || lm.Axiom {
			continue
		}
		wg.Add(1)
		go func(lm *Lemma) {
			defer wg.Done()
			sem <- struct{}{}
			r := VerifyLemma(ctx.ld, ctx.cs, lm)
			<-sem
			mu.Lock()
			results = append(results, r)
			mu.Unlock()
		}(lm)
	}
	wg.Wait()
	sort.Slice(results, func(i, j int) bool { return results[i].Key < results[j].Key })
	if ctx.tier != "thorough" && !ctx.update {
		// (a baseline update gives every obligation the full budget, so that a
		// transient timeout recorded earlier does not stick)
		bp := loadBaseline().Obligations[ctx.prop]
		ctx.opts.ShortOnly = func(name string) bool {
			st, ok := bp[name]
			return ok && st != "proved" && st != "proved-slow"
		}
	}
	solveAll(results, ctx.opts)
	// model hunting for undecided obligations that the baseline has as discharged
	// (or does not know): a counterexample makes the report concrete.
	bprop := loadBaseline().Obligations[ctx.prop]
	var hw sync.WaitGroup
	for _, r := range results {
		for _, o := range r.Obligations {
			if o.Status != "unknown" {
				continue
			}
			if st, ok := bprop[o.Name]; ok && st != "proved" {
				continue
			}
			hw.Add(1)
			go func(r *FuncResult, o *Obligation) {
				defer hw.Done()
				huntModel(r, o)
			}(r, o)
		}
	}
	hw.Wait()
	ctx.funcResults = results
	for _, r := range results {
		jr.Functions = append(jr.Functions, r.Key)
		if r.Err != "" {
			jr.Errors = append(jr.Errors, r.Err)
		}
		for _, a := range r.Assumed {
			jr.Assumed = append(jr.Assumed, a)
		}
		for _, a := range r.Unsupported {
			jr.Unsupported = append(jr.Unsupported, r.Key+": "+a)
		}
		for _, a := range r.Inlined {
			jr.Inlined = append(jr.Inlined, a)
		}
		for _, a := range r.Havocs {
			jr.Havocs = append(jr.Havocs, r.Key+": "+a)
		}
		for _, o := range append(append([]*Obligation{}, r.Obligations...), r.Covers...) {
			rec := &ObRecord{Name: o.Name, Kind: o.Kind, Fn: o.Fn, Status: o.Status, Backend: o.Backend, Secs: o.Secs, Model: o.Model, Pos: o.Pos2, Cover: o.Cover, Trivial: o.Trivial}
			if o.Known != nil {
				rec.Known = o.Known.What
				rec.KnownProp = o.Known.Property
			}
			if o.Status != "proved" {
				rec.Detail = firstLines(o.Output, 4)
			}
			if len(r.Stale) > 0 && o.Status != "proved" && !o.Cover && ctx.pureRename(r.Key) {
				rec.Stale = strings.Join(r.Stale, ", ")
				rec.Status = "unknown"
				rec.Detail = "stale contract: it names " + rec.Stale + ", which " + r.Key + " does not have (renamed?); " + rec.Detail
				jr.Records = append(jr.Records, rec)
				continue
			}
			jr.Records = append(jr.Records, rec)
			if st, inBase := bprop[o.Name]; o.Status == "refuted" && !o.Cover && inBase && st != "proved" && !ctx.update {
				// already failing when the baseline was taken (triaged then):
				// undecided, not a regression
			} else if o.Status == "refuted" && !o.Cover {
				// try to replay the model against the real code
				path, outcome := ctx.replayObligation(r, o)
				rec.Replay = path
				rec.ReplayOutcome = outcome
			}
		}
	}
	return jr
}

// pureRename: the function has exactly the shape it had when the baseline was
// taken - whatever the contract can no longer name was renamed, not removed.
func (ctx *checkCtx) pureRename(key string) bool {
	fn := ctx.ld.Funcs[key]
	if fn == nil {
		return false
	}
	was := loadBaseline().Shapes[ctx.prop][key]
	return was != "" && was == shapeOf(fn)
}

func uniq(xs []string) []string {
	sort.Strings(xs)
	var out []string
	for i, x := range xs {
		if i == 0 || x != xs[i-1] {
			out = append(out, x)
		}
	}
	return out
}

// report classifies, prints, writes evidence, returns the exit code.
func (ctx *checkCtx) report(total *JobResult, update, verbose bool, start time.Time) int {
	base := loadBaseline()
	bprop := base.Obligations[ctx.prop]
	if bprop == nil {
		bprop = map[string]string{}
	}
	var violations []string
	var knownLines []string
	var engineErrors []string
	obligations, discharged, bounded, undecided := 0, 0, 0, 0
	byBackend := map[string]map[string]float64{}
	var undecidedNames []string
	seen := map[string]bool{}
	vanishedFns := map[string]bool{}
	newFailing := map[string][]*ObRecord{}
	staleFns := map[string]string{}

	replayDir := filepath.Join(outDir(), "replays", ctx.prop)
	knownCount := map[string]int{}
	knownFirst := map[string]string{}

	for _, r := range total.Records {
		seen[r.Name] = true
		if r.Kind == "known-canary" {
			// sat (proved cover) or unknown: the defect is still there
			if r.Status != "vacuous" && (r.KnownProp == "" || r.KnownProp == ctx.prop) {
				knownCount[r.Known]++
				if knownCount[r.Known] == 1 {
					knownFirst[r.Known] = strings.TrimSuffix(r.Name, "#known-canary")
				}
			}
			continue
		}
		if r.Kind == "known-site" {
			knownCount[r.Known]++
			if knownCount[r.Known] == 1 {
				knownFirst[r.Known] = r.Name
			}
			continue
		}
		if r.Cover {
			if r.Status == "vacuous" {
				engineErrors = append(engineErrors, "vacuity: "+r.Name+" is unreachable under the assumptions")
			}
			continue
		}
		if r.Bounded {
			bounded++
			if r.Status == "refuted" {
				path := writeReplayNote(replayDir, r)
				violations = append(violations, fmt.Sprintf("VIOLATION property=%s replay=%s", ctx.prop, path))
			}
			continue
		}
		obligations++
		if _, ok := byBackend[r.Backend]; !ok && r.Backend != "" {
			byBackend[r.Backend] = map[string]float64{}
		}
		if r.Backend != "" {
			byBackend[r.Backend]["count"]++
			byBackend[r.Backend]["secs"] += r.Secs
		}
		if r.Stale != "" && r.Status != "proved" {
			undecided++
			undecidedNames = append(undecidedNames, r.Name)
			staleFns[r.Fn] = r.Stale
			continue
		}
		switch r.Status {
		case "proved", "exhaustive":
			discharged++
		default:
			was, inBase := bprop[r.Name]
			wasProved := inBase && (was == "proved" || was == "exhaustive")
			switch {
			case r.Status == "refuted" && r.ReplayOutcome == "reproduced":
				violations = append(violations, fmt.Sprintf("VIOLATION property=%s replay=%s", ctx.prop, r.Replay))
			case (wasProved || (r.Decisive && r.Status == "refuted")) && groupRegressed(bprop, total.Records, r.Name):
				path := r.Replay
				if path == "" {
					path = writeReplayNote(replayDir, r)
				}
				violations = append(violations, fmt.Sprintf("VIOLATION property=%s replay=%s obligation=%s no-failing-input-found", ctx.prop, path, r.Name))
			case r.Status == "error":
				engineErrors = append(engineErrors, "solver error on "+r.Name+": "+r.Detail)
			default:
				undecided++
				undecidedNames = append(undecidedNames, r.Name)
				if !inBase {
					newFailing[r.Fn+"#"+r.Kind] = append(newFailing[r.Fn+"#"+r.Kind], r)
				}
			}
		}
	}
	for fn, ids := range staleFns {
		knownLines = append(knownLines, fmt.Sprintf("STALE-CONTRACT: property=%s the contract of %s names %s, which the function does not have (renamed?): its open obligations are undecided in this run, not violations", ctx.prop, fn, ids))
	}
	for what, n := range knownCount {
		extra := ""
		if n > 1 {
			extra = fmt.Sprintf(" (+%d more obligations)", n-1)
		}
		knownLines = append(knownLines, fmt.Sprintf("KNOWN-FINDING: property=%s %s [%s%s]", ctx.prop, what, knownFirst[what], extra))
	}
	// Findings that no obligation expresses (recorded with the history that
	// fails): the canary is replayed on the real code; the line is printed while
	// it still reproduces. This reports a listed defect, it decides nothing.
	for _, k := range knownList {
		if k.Obligation != "" || k.Property != ctx.prop || k.Canary == "" {
			continue
		}
		path := filepath.Join(verifDir(), "canaries", k.Canary)
		data, err := os.ReadFile(path)
		if err != nil {
			engineErrors = append(engineErrors, "known finding without canary file: "+k.Canary)
			continue
		}
		dir := "."
		if i := strings.Index(string(data), "gv-replay-dir:"); i >= 0 {
			f := strings.Fields(string(data)[i+len("gv-replay-dir:"):])
			if len(f) > 0 {
				dir = f[0]
			}
		}
		if _, outcome := runReplay(path, dir); outcome == "reproduced" {
			knownLines = append(knownLines, fmt.Sprintf("KNOWN-FINDING: property=%s %s [history: %s; canary %s]", ctx.prop, k.What, k.History, k.Canary))
		}
	}
	// baseline obligations that vanished: if the same function now has new
	// undischarged obligations of the same kind, the proof is broken.
	var vanished []string
	for name, st := range bprop {
		if seen[name] || (st != "proved" && st != "exhaustive") {
			continue
		}
		vanished = append(vanished, name)
		fn, kind := splitObName(name)
		vanishedFns[fn+"#"+kind] = true
	}
	sort.Strings(vanished)
	// (only when the function has more undischarged obligations of that kind
	// than it had: a reordering that renames obligations keeps the count)
	openBase, openNow := map[string]int{}, map[string]int{}
	for name, st := range bprop {
		if st != "proved" && st != "exhaustive" {
			fn, kind := splitObName(name)
			openBase[fn+"#"+kind]++
		}
	}
	for _, r := range total.Records {
		if r.Cover || r.Bounded || r.Known != "" || r.Kind == "known-canary" || r.Kind == "known-site" {
			continue
		}
		if r.Status != "proved" && r.Status != "exhaustive" {
			fn, kind := splitObName(r.Name)
			openNow[fn+"#"+kind]++
		}
	}
	for fk := range vanishedFns {
		if openNow[fk] <= openBase[fk] {
			continue
		}
		for _, r := range newFailing[fk] {
			path := r.Replay
			if path == "" {
				path = writeReplayNote(replayDir, r)
			}
			violations = append(violations, fmt.Sprintf("VIOLATION property=%s replay=%s obligation=%s (replaces a discharged baseline obligation) no-failing-input-found", ctx.prop, path, r.Name))
		}
	}
	// regression by count: a function that the baseline covers now has more
	// undischarged obligations of a kind than it had, and the new ones are
	// refuted by the solver (not merely timed out). Renaming an obligation
	// (harmless refactor) keeps the count and raises nothing.
	{
		baseFn := map[string]bool{}
		baseOpen := map[string]int{}
		for name, st := range bprop {
			fn, kind := splitObName(name)
			baseFn[fn] = true
			if st != "proved" && st != "exhaustive" {
				baseOpen[fn+"#"+kind]++
			}
		}
		nowOpen := map[string]int{}
		for _, r := range total.Records {
			if r.Cover || r.Bounded || r.Known != "" || r.Kind == "known-canary" || r.Kind == "known-site" {
				continue
			}
			if r.Status != "proved" && r.Status != "exhaustive" {
				fn, kind := splitObName(r.Name)
				nowOpen[fn+"#"+kind]++
			}
		}
		for fk, rs := range newFailing {
			fn := fk
			if i := strings.Index(fk, "#"); i >= 0 {
				fn = fk[:i]
			}
			if !baseFn[fn] || vanishedFns[fk] || nowOpen[fk] <= baseOpen[fk] {
				continue
			}
			for _, r := range rs {
				if r.Status != "refuted" {
					continue
				}
				path := r.Replay
				if path == "" {
					path = writeReplayNote(replayDir, r)
				}
				violations = append(violations, fmt.Sprintf("VIOLATION property=%s replay=%s obligation=%s (%s had %d undischarged %s obligations in the baseline, now %d) no-failing-input-found",
					ctx.prop, path, r.Name, fn, baseOpen[fk], strings.TrimPrefix(fk, fn+"#"), nowOpen[fk]))
			}
		}
	}
	for _, e := range total.Errors {
		engineErrors = append(engineErrors, e)
	}
	if obligations == 0 && bounded == 0 {
		engineErrors = append(engineErrors, "vacuity: zero obligations generated for "+ctx.prop)
	}

	// evidence
	wall := time.Since(start).Seconds()
	writeEvidence(ctx, total, obligations, discharged, bounded, undecidedNames, byBackend, knownLines, violations, vanished, wall)

	if update {
		np := map[string]string{}
		for _, r := range total.Records {
			if r.Cover || r.Bounded || r.Kind == "known-canary" || r.Kind == "known-site" {
				continue
			}
			np[r.Name] = r.Status
			if r.Status == "proved" && r.Secs > 4.0 {
				// too close to the solver budget to be relied on: a later
				// timeout must not be reported as a regression
				np[r.Name] = "proved-slow"
			}
		}
		base.Obligations[ctx.prop] = np
		if base.Shapes == nil {
			base.Shapes = map[string]map[string]string{}
		}
		sh := map[string]string{}
		for _, fr := range ctx.funcResults {
			if fn := ctx.ld.Funcs[fr.Key]; fn != nil {
				sh[fr.Key] = shapeOf(fn)
			}
		}
		base.Shapes[ctx.prop] = sh
		data, _ := json.MarshalIndent(base, "", " ")
		os.WriteFile(verifDir()+"/baseline_obligations.json", append(data, '\n'), 0644)
	}

	// output
	if verbose {
		for _, r := range total.Records {
			fmt.Printf("  %-9s %-7s %6.2fs %s\n", r.Status, r.Backend, r.Secs, r.Name)
		}
	}
	fmt.Printf("gv: property=%s tier=%s functions=%d obligations=%d discharged=%d undecided=%d bounded=%d wall=%.1fs digest=%s\n",
		ctx.prop, ctx.tier, len(uniq(total.Functions)), obligations, discharged, undecided, bounded, wall, ctx.ld.Digest)
	for _, n := range undecidedNames {
		fmt.Println("UNDECIDED:", n)
	}
	for _, v := range vanished {
		fmt.Println("NOTE: baseline obligation no longer generated:", v)
	}
	sort.Strings(knownLines)
	for _, k := range uniq(knownLines) {
		fmt.Println(k)
	}
	if len(engineErrors) > 0 {
		for _, e := range engineErrors {
			fmt.Println("ENGINE-ERROR:", e)
		}
	}
	if len(violations) > 0 {
		for _, v := range uniq(violations) {
			fmt.Println(v)
		}
		return 1
	}
	if len(engineErrors) > 0 {
		return 2
	}
	return 0
}

func countTrivial(total *JobResult) int {
	n := 0
	for _, r := range total.Records {
		if r.Trivial && !r.Cover && !r.Bounded && r.Status == "proved" {
			n++
		}
	}
	return n
}

func splitObName(name string) (fn, kind string) {
	i := strings.Index(name, "#")
	if i < 0 {
		return name, ""
	}
	fn = name[:i]
	if j := strings.Index(fn, "/"); j >= 0 {
		fn = fn[:j]
	}
	rest := name[i+1:]
	if j := strings.IndexAny(rest, ":#"); j >= 0 {
		rest = rest[:j]
	}
	return fn, rest
}

// writeReplayNote writes a replay file that names the failed obligation and
// carries the verifier's output (no concrete failing input was found).
func writeReplayNote(dir string, r *ObRecord) string {
	os.MkdirAll(dir, 0755)
	path := filepath.Join(dir, smtIdent(r.Name)+".txt")
	var b strings.Builder
	fmt.Fprintf(&b, "obligation: %s\nkind: %s\nfunction: %s\nposition: %s\nstatus: %s (backend %s, %.2fs)\n", r.Name, r.Kind, r.Fn, r.Pos, r.Status, r.Backend, r.Secs)
	if len(r.Model) > 0 {
		b.WriteString("model:\n")
		var ks []string
		for k := range r.Model {
			ks = append(ks, k)
		}
		sort.Strings(ks)
		for _, k := range ks {
			fmt.Fprintf(&b, "  %s = %s\n", k, r.Model[k])
		}
	}
	if r.ReplayOutcome != "" {
		fmt.Fprintf(&b, "replay outcome: %s\n", r.ReplayOutcome)
	}
	fmt.Fprintf(&b, "verifier output:\n%s\n", r.Detail)
	os.WriteFile(path, []byte(b.String()), 0644)
	return path
}

func writeEvidence(ctx *checkCtx, total *JobResult, obligations, discharged, bounded int, undecided []string,
	byBackend map[string]map[string]float64, known, violations, vanished []string, wall float64) {
	level := "other"
	explanation := ""
	if data, err := os.ReadFile(filepath.Join(verifDir(), "MANIFEST.json")); err == nil {
		var man struct {
			Checks []struct {
				PropertyID string `json:"property_id"`
				Level      struct {
					Category string `json:"category"`
					Text     string `json:"text"`
				} `json:"level_claimed"`
				Note string `json:"level_note"`
			} `json:"checks"`
		}
		if json.Unmarshal(data, &man) == nil {
			for _, c := range man.Checks {
				if c.PropertyID == ctx.prop {
					level = c.Level.Category
					explanation = c.Level.Text + " | assumptions: " + c.Note
				}
			}
		}
	}
	if explanation == "" {
		explanation = "contract-based deductive verification of the functions listed under functions_under_contract; see DESIGN.md"
	}
	var samples []interface{}
	n := 0
	for _, r := range total.Records {
		if r.Cover || r.Kind == "known-canary" {
			continue
		}
		if n < 6 || r.Status == "refuted" {
			s := map[string]interface{}{"obligation": r.Name, "kind": r.Kind, "status": r.Status, "backend": r.Backend, "secs": r.Secs}
			if len(r.Model) > 0 {
				s["model"] = r.Model
			}
			if r.ReplayOutcome != "" {
				s["replay"] = r.ReplayOutcome
			}
			samples = append(samples, s)
			n++
		}
	}
	samples = append(samples, total.Samples...)
	trusted := []string{
		"gv: SSA->VC translation, heap/slice/interface model, contract parser (mitigated by covers, must-fail selftest corpus, three solvers)",
		"golang.org/x/tools/go/ssa v0.29.0 represents the source faithfully",
		"z3 4.8.12 / z3-new 5.1.0 / cvc5 1.0.x",
		"int is mathematical (no overflow obligations generated); float64 is Real",
	}
	assumed := uniq(total.Assumed)
	cov := map[string]interface{}{
		"obligations":              obligations,
		"discharged":               discharged,
		"checker_cmd":              fmt.Sprintf("/verif/bin/gv check -property %s -tier %s", ctx.prop, ctx.tier),
		"trusted_base":             trusted,
		"explanation":              explanation,
		"functions_under_contract": uniq(total.Functions),
		"by_backend":               byBackend,
		"undecided":                undecided,
		"bounded_standins":         total.Bounded,
		"bounded_checks":           bounded,
		"assumed_contracts":        assumed,
		"inlined_callees":          uniq(total.Inlined),
		"havoc_calls":              uniq(total.Havocs),
		"unsupported":              uniq(total.Unsupported),
		"known_findings_hit":       uniq(known),
		"baseline_vanished":        vanished,
		"samples":                  samples,
		"source_digest":            ctx.ld.Digest,
		"contract_files":           ctx.cs.Files,
		"notes":                    total.Notes,
		"evaluations":              obligations + bounded,
		"distinct_nontrivial":      discharged - countTrivial(total),
		"syntactically_true":       countTrivial(total),
		"rule":                     "one evaluation = one verification condition generated from /repo's current SSA and decided by an SMT solver or a named special-purpose decider; non-trivial = discharged and not syntactically true",
	}
	if level == "proof" && discharged != obligations {
		// never claim proof with open obligations
		level = "other"
		cov["level_downgraded"] = "proof claimed in MANIFEST but some obligations undecided in this run"
	}
	assumptions := append([]string{}, assumed...)
	assumptions = append(assumptions, "machine integers treated as mathematical integers; float64 treated as real", "external functions without a contract: result unconstrained (pure list) or heap havocked")
	ev := map[string]interface{}{
		"property_id": ctx.prop,
		"tier":        ctx.tier,
		"seed":        ctx.seed,
		"level":       level,
		"coverage":    cov,
		"assumptions": assumptions,
		"wall_s":      wall,
		"violations":  len(violations),
	}
	os.MkdirAll(filepath.Join(outDir(), "evidence"), 0755)
	data, _ := json.MarshalIndent(ev, "", " ")
	os.WriteFile(filepath.Join(outDir(), "evidence", ctx.prop+".json"), append(data, '\n'), 0644)
}


func cmdSelftest(args []string) int { return 2 }

// obGroup strips the occurrence suffix (#2, #3, ...) of an obligation name.
// Obligations of one group differ only in the order in which the engine met
// them; a harmless reordering of statements permutes the suffixes.
func obGroup(name string) string {
	if i := strings.LastIndex(name, "#"); i > 0 {
		if _, err := strconv.Atoi(name[i+1:]); err == nil {
			return name[:i]
		}
	}
	return name
}

var groupCache struct {
	base map[string]int
	now  map[string]int
	done bool
}

// groupRegressed: more obligations of name's group are undischarged now than
// were when the baseline was taken (a proof that merely moved to a sibling
// with another suffix is not a regression).
func groupRegressed(bprop map[string]string, recs []*ObRecord, name string) bool {
	if !groupCache.done {
		groupCache.base = map[string]int{}
		groupCache.now = map[string]int{}
		for n, st := range bprop {
			if st != "proved" && st != "exhaustive" {
				groupCache.base[obGroup(n)]++
			}
		}
		for _, r := range recs {
			if r.Cover || r.Bounded || r.Known != "" || r.Kind == "known-canary" || r.Kind == "known-site" {
				continue
			}
			if r.Status != "proved" && r.Status != "exhaustive" {
				groupCache.now[obGroup(r.Name)]++
			}
		}
		groupCache.done = true
	}
	g := obGroup(name)
	return groupCache.now[g] > groupCache.base[g]
}
