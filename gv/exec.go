package main

// The VC generator: forward symbolic execution of go/ssa with loops cut at
// their invariants, one reach condition per basic block, heap as SMT arrays.

import (
	"os"
	"fmt"
	"go/ast"
	"go/constant"
	"go/token"
	"go/types"
	"regexp/syntax"
	"sort"
	"strings"
	"unicode/utf8"

	"golang.org/x/tools/go/ssa"
)

type Exec struct {
	staleIdents map[string]bool // identifiers a contract clause names that do not exist in the function
	ld   *Loaded
	cs   *ContractSet
	sc   *Script
	top  *ssa.Function
	topKey string
	contract *Contract

	strLits  map[string]Term
	strOrder []string
	typeTags map[string]int
	tagTypes []types.Type
	ncell    int

	unsupported map[string]bool
	assumedUsed map[string]bool
	inlinedUsed map[string]bool
	havocCalls  map[string]bool
	obNames     map[string]int
	nilChecked  map[string]bool
	inputs      []string
	heapInits   map[string]Term
	stack       []*ssa.Function
	maxInline   int
	checkPanics bool
	props       []string
	callOrd     map[string]int
	initOnly    map[*ssa.Global]*globalInit
	topFrame    *Frame
	inInvoke    int
	invAllocs   []invAlloc
	storeFr     *Frame
	storePos    token.Pos
}

type Frame struct {
	fn     *ssa.Function
	regs   map[ssa.Value]Val
	label  string
	depth  int
	params map[string]Val
	ptypes map[string]types.Type
	rets   []retInfo
	isTop  bool
	entry  *State
	loops  map[*ssa.BasicBlock]*loopInfo
	curBlock *ssa.BasicBlock
	curState *State
	blockPC  Term
	dead    bool // current path ended (panic)
	debugVals map[string]ssa.Value
}

type retInfo struct {
	pc   Term
	vals []Val
	st   *State
}

type loopInfo struct {
	header *ssa.BasicBlock
	blocks map[*ssa.BasicBlock]bool
	ord    int
	spec   *LoopSpec
	headSt *State        // state right after havoc (for decreases)
	headPhis map[*ssa.Phi]Val
	measure0 Term
	hasMeasure bool
	invMark  int
	parent   *loopInfo // innermost enclosing loop, nil for an outermost one
}

func NewExec(ld *Loaded, cs *ContractSet) *Exec {
	return &Exec{ld: ld, cs: cs, sc: NewScript(), strLits: map[string]Term{}, typeTags: map[string]int{},
		unsupported: map[string]bool{}, assumedUsed: map[string]bool{}, inlinedUsed: map[string]bool{}, havocCalls: map[string]bool{},
		obNames: map[string]int{}, nilChecked: map[string]bool{}, heapInits: map[string]Term{}, maxInline: 6, checkPanics: true,
		callOrd: map[string]int{}}
}

// outerOf: the state at the head of the current iteration of the loop that
// encloses li (what outer(...) reads in li's invariants).
func outerOf(li *loopInfo) *State {
	if li != nil && li.parent != nil {
		return li.parent.headSt
	}
	return nil
}

func (ex *Exec) unsup(what string) {
	ex.unsupported[what] = true
}

// ---------------------------------------------------------------------------
// obligations

func (ex *Exec) oblige(fr *Frame, kind, detail string, pc, goal Term, pos token.Pos) {
	ex.obligeEnv(fr, kind, detail, pc, goal, pos, nil)
}

func (ex *Exec) obligeEnv(fr *Frame, kind, detail string, pc, goal Term, pos token.Pos, env *Env) {
	trivial := false
	if goal.S == "true" {
		// A contract clause that is syntactically true here (e.g. `arg2 ==
		// document` where the argument IS the parameter) stays on the list under
		// its name: a change that makes it non-trivial must meet a baseline
		// entry, not appear as a new obligation. Safety conditions that fold to
		// true are dropped as before.
		if !(strings.HasPrefix(kind, "oncall") || strings.HasPrefix(kind, "ensures") || (strings.HasPrefix(kind, "loop") && !strings.HasSuffix(kind, ".exists"))) {
			return
		}
		trivial = true
	}
	name := fr.label + "#" + kind
	if detail != "" {
		name += ":" + detail
	}
	ex.obNames[name]++
	if n := ex.obNames[name]; n > 1 {
		name = fmt.Sprintf("%s#%d", name, n)
	}
	var knownHit *Known
	origGoal := goal
	if k := knownFor(name); k != nil {
		if env == nil {
			if fr.curBlock != nil && fr.curState != nil {
				env = ex.loopEnv(fr, fr.curState)
			} else {
				env = ex.entryEnv(fr)
			}
		}
		when := tFalse
		if k.whenExpr != nil {
			when = ex.term(ex.eval(k.whenExpr, env).V, SBool)
		}
		can := &Obligation{Name: name + "#known-canary", Kind: "known-canary", Fn: ex.topKey, Props: []string{k.Property}, Goal: And(when, Not(goal)), PC: pc,
			Pos2: ex.ld.posString(pos), Inputs: ex.inputs, Cover: true, Known: k}
		ex.sc.AddObligation(can)
		origGoal = goal
		goal = Or(when, goal)
		knownHit = k
	}
	o := &Obligation{Name: name, Kind: kind, Fn: ex.topKey, Props: ex.props, Goal: goal, PC: pc, Pos2: ex.ld.posString(pos), Inputs: ex.inputs, Known: knownHit, Trivial: trivial}
	ex.sc.Comment("obligation " + name)
	ex.sc.AddObligation(o)
	// assert-then-assume: execution continues past this point only if the check held
	// (for a known finding: the original condition, not the carved-out one)
	ex.sc.AssumeGoal(Implies(pc, origGoal))
}

// entryEnv: parameter names (entry values) and lets, heap at entry.
func (ex *Exec) entryEnv(fr *Frame) *Env {
	st := fr.entry
	if st == nil {
		st = newState(T(SInt, "alloc0"))
	}
	env := ex.newEnv(fr, st, st)
	for n, v := range fr.params {
		if strings.HasPrefix(n, "let.") {
			env.vars[n[4:]] = TV{v, nil}
			continue
		}
		env.vars[n] = TV{v, fr.ptypes[n]}
		env.vars[n+"0"] = TV{v, fr.ptypes[n]}
	}
	return env
}

// ---------------------------------------------------------------------------
// strings and type tags

func (ex *Exec) strLit(s string) Term {
	if s == "" {
		return T(SStr, "str.empty_")
	}
	if t, ok := ex.strLits[s]; ok {
		return t
	}
	t := T(SStr, fmt.Sprintf("lit!%d", len(ex.strOrder)))
	ex.strLits[s] = t
	ex.strOrder = append(ex.strOrder, s)
	return t
}

func (ex *Exec) litValue(t Term) (string, bool) {
	if t.S == "str.empty_" {
		return "", true
	}
	if strings.HasPrefix(t.S, "lit!") {
		var i int
		fmt.Sscanf(t.S, "lit!%d", &i)
		if i < len(ex.strOrder) {
			return ex.strOrder[i], true
		}
	}
	return "", false
}

// stringPrelude declares the literals and the facts about them.
func (ex *Exec) stringPrelude() []string {
	var out []string
	out = append(out, "(declare-const str.empty_ Str)", "(assert (= (str.len_ str.empty_) 0))",
)
	names := []string{"str.empty_"}
	for i, s := range ex.strOrder {
		n := fmt.Sprintf("lit!%d", i)
		names = append(names, n)
		out = append(out, fmt.Sprintf("(declare-const %s Str) ; %q", n, s))
		out = append(out, fmt.Sprintf("(assert (= (str.len_ %s) %d))", n, len(s)))
		if len(s) <= 12 {
			for j := 0; j < len(s); j++ {
				out = append(out, fmt.Sprintf("(assert (= (str.at_ %s %d) %d))", n, j, s[j]))
			}
		}
	}
	if len(names) > 1 {
		out = append(out, "(assert (distinct "+strings.Join(names, " ")+"))")
	}
	// concatenation folding among known literals
	if len(ex.strOrder) <= 80 {
		for i, a := range ex.strOrder {
			for j, b := range ex.strOrder {
				if k, ok := ex.strLits[a+b]; ok {
					out = append(out, fmt.Sprintf("(assert (= (str.cat_ lit!%d lit!%d) %s))", i, j, k.S))
				}
			}
		}
	}
	return out
}

func (ex *Exec) typeTag(t types.Type) int {
	k := typeName(t)
	if n, ok := ex.typeTags[k]; ok {
		return n
	}
	n := len(ex.tagTypes) + 1
	ex.typeTags[k] = n
	ex.tagTypes = append(ex.tagTypes, t)
	return n
}

// ifaceTerm converts a statically typed interface value into an Iface term.
func (ex *Exec) ifaceTerm(v IfaceV) Term {
	tag := IntLit(int64(ex.typeTag(v.Dyn)))
	return app(SIface, "mk-iface", tag, ex.encodeData(v.Dyn, v.Payload))
}

func (ex *Exec) encodeData(t types.Type, v Val) Term {
	sv, ok := v.(SV)
	if !ok {
		// struct payloads: opaque identity
		return ex.sc.Fresh("boxed", SInt)
	}
	switch sv.T.Sort {
	case SInt:
		return sv.T
	case SBool:
		return Ite(sv.T, IntLit(1), IntLit(0))
	case SStr:
		ex.sc.Assert(Eq(app(SStr, "data.str_", app(SInt, "str.data_", sv.T)), sv.T))
		return app(SInt, "str.data_", sv.T)
	case SReal:
		ex.sc.Assert(Eq(app(SReal, "data.real_", app(SInt, "real.data_", sv.T)), sv.T))
		return app(SInt, "real.data_", sv.T)
	}
	return ex.sc.Fresh("boxed", SInt)
}

func (ex *Exec) decodeData(t types.Type, data Term) Val {
	s, ok := scalarSort(t)
	if !ok {
		return ex.freshVal(t, "unboxed")
	}
	switch s {
	case SInt:
		return SV{data}
	case SBool:
		return SV{Not(Eq(data, IntLit(0)))}
	case SStr:
		return SV{app(SStr, "data.str_", data)}
	case SReal:
		return SV{app(SReal, "data.real_", data)}
	}
	return ex.freshVal(t, "unboxed")
}

// term coerces a value to a single term of the wanted sort (havoc if opaque).
func (ex *Exec) term(v Val, want Sort) Term {
	switch x := v.(type) {
	case SV:
		if want == "" || x.T.Sort == want {
			return x.T
		}
		if want == SReal && x.T.Sort == SInt {
			return ToReal(x.T)
		}
		ex.unsup(fmt.Sprintf("sort coercion %s->%s", x.T.Sort, want))
		return ex.sc.Fresh("coerce", want)
	case IfaceV:
		return ex.ifaceTerm(x)
	case FuncV:
		return IntLit(int64(1000000 + ex.typeTag(types.NewPointer(x.Fn.Signature))))
	case HeapPtr:
		if len(x.Path) == 0 {
			return x.Base
		}
	}
	if want == "" {
		want = SInt
	}
	ex.unsup(fmt.Sprintf("term of %T", v))
	return ex.sc.Fresh("opaque", want)
}

func (ex *Exec) boolTerm(v Val) Term { return ex.term(v, SBool) }

// ---------------------------------------------------------------------------
// heap

func (ex *Exec) heapInit(key string, sort Sort) Term {
	if t, ok := ex.heapInits[key]; ok {
		return t
	}
	t := ex.sc.Declare(smtIdent("H0."+key), sort)
	ex.heapInits[key] = t
	ex.fieldInvAxiom(key, t, T(SInt, "alloc0"))
	return t
}

func (ex *Exec) heapGet(st *State, key string, sort Sort) Term { return ex.heapRead(st, key, sort) }

func (ex *Exec) heapSet(st *State, key string, t Term) {
	st.heap[key] = ex.sc.Name("h."+key, t)
}

type leafT struct {
	path []int
	typ  types.Type
	name string
	sort Sort
}

func structLeaves(t types.Type, prefix []int, name string, out *[]leafT) {
	if s, ok := scalarSort(t); ok {
		*out = append(*out, leafT{append([]int{}, prefix...), t, name, s})
		return
	}
	switch u := t.Underlying().(type) {
	case *types.Struct:
		for i := 0; i < u.NumFields(); i++ {
			n := u.Field(i).Name()
			if name != "" {
				n = name + "." + n
			}
			structLeaves(u.Field(i).Type(), append(prefix, i), n, out)
		}
	default:
		*out = append(*out, leafT{append([]int{}, prefix...), t, name, ""})
	}
}

func typeAtPath(t types.Type, path []int) (types.Type, string) {
	name := ""
	for _, i := range path {
		st, ok := t.Underlying().(*types.Struct)
		if !ok {
			return nil, name
		}
		if name != "" {
			name += "."
		}
		name += st.Field(i).Name()
		t = st.Field(i).Type()
	}
	return t, name
}

func heapKeyFor(root types.Type, fieldName string) string {
	k := "H." + typeName(root)
	if fieldName != "" {
		k += "." + fieldName
	}
	return k
}

// loadAt reads the value of type t at (root object ref, path).
func (ex *Exec) loadHeap(st *State, base Term, root types.Type, path []int) Val {
	t, name := typeAtPath(root, path)
	if t == nil {
		ex.unsup("heap path")
		return Opaque{"heap path"}
	}
	return ex.loadHeapTyped(st, base, root, t, path, name)
}

func (ex *Exec) loadHeapTyped(st *State, base Term, root types.Type, t types.Type, path []int, name string) Val {
	if s, ok := scalarSort(t); ok {
		arr := ex.heapGet(st, heapKeyFor(root, name), ArraySort(SInt, s))
		v := ex.sc.Name("ld."+name, Select(arr, base))
		ex.assumeLoaded(st, t, v)
		return SV{v}
	}
	switch u := t.Underlying().(type) {
	case *types.Struct:
		fs := make([]Val, u.NumFields())
		for i := range fs {
			n := u.Field(i).Name()
			if name != "" {
				n = name + "." + n
			}
			fs[i] = ex.loadHeapTyped(st, base, root, u.Field(i).Type(), append(append([]int{}, path...), i), n)
		}
		return StructV{Typ: t, F: fs}
	}
	ex.unsup("heap load of " + t.String())
	return Opaque{"heap load " + t.String()}
}

// assumeLoaded: type invariants of values read from memory (refs exist already).
func (ex *Exec) assumeLoaded(st *State, t types.Type, v Term) {
	if v.S == "" || !strings.Contains(v.S, "!") {
		// only for named constants (avoid duplicating large terms)
	}
	switch t.Underlying().(type) {
	case *types.Pointer, *types.Map, *types.Chan:
		ex.sc.Assert(And(app(SBool, ">=", v, IntLit(0)), app(SBool, "<", v, st.alloc)))
	case *types.Slice:
		ex.sc.Assert(And(wfSlice(v), app(SBool, "<", app(SInt, "sl.arr", v), st.alloc)))
	case *types.Interface:
		ex.sc.Assert(And(app(SBool, ">=", app(SInt, "if.tag", v), IntLit(0)),
			Implies(Eq(app(SInt, "if.tag", v), IntLit(0)), Eq(app(SInt, "if.data", v), IntLit(0)))))
	case *types.Basic:
		ex.assumeTypeInv(t, v, tTrue)
	}
}

func (ex *Exec) storeHeap(st *State, base Term, root types.Type, path []int, v Val) {
	t, name := typeAtPath(root, path)
	if t == nil {
		ex.unsup("heap path")
		ex.havocAll(st, "exec.go:431")
		return
	}
	ex.storeHeapTyped(st, base, root, t, name, v)
}

func (ex *Exec) storeHeapTyped(st *State, base Term, root types.Type, t types.Type, name string, v Val) {
	if s, ok := scalarSort(t); ok {
		key := heapKeyFor(root, name)
		arr := ex.heapGet(st, key, ArraySort(SInt, s))
		vt := ex.term(v, s)
		ex.storeInvCheck(st, key, base)
		ex.heapSet(st, key, Store(arr, base, vt))
		return
	}
	if u, ok := t.Underlying().(*types.Struct); ok {
		sv, ok := v.(StructV)
		if !ok {
			sv, _ = ex.freshVal(t, "st").(StructV)
			ex.unsup("struct store of non-struct value")
		}
		for i := 0; i < u.NumFields(); i++ {
			n := u.Field(i).Name()
			if name != "" {
				n = name + "." + n
			}
			ex.storeHeapTyped(st, base, root, u.Field(i).Type(), n, sv.F[i])
		}
		return
	}
	ex.unsup("heap store of " + t.String())
	ex.havocAll(st, "exec.go:460")
}

// havocHeap replaces the named heap arrays (all of them if keys == nil) by
// fresh ones; the allocation counter may only grow.
func (ex *Exec) havocHeap(st *State, keys []string) {
	var created []string
	if keys == nil {
		for k := range ex.heapInits {
			if _, ok := st.heap[k]; !ok {
				st.heap[k] = ex.heapInits[k]
			}
		}
		var ks []string
		for k := range st.heap {
			ks = append(ks, k)
		}
		sort.Strings(ks)
		for _, k := range ks {
			st.heap[k] = ex.sc.Fresh("hv."+k, st.heap[k].Sort)
			created = append(created, k)
		}
		// arrays not touched so far must also be considered changed: bump a version
		// so that later first-time reads do not see the initial array.
		st.heap["__epoch"] = ex.sc.Fresh("epoch", SInt)
	} else {
		var expanded []string
		for _, k := range keys {
			if strings.HasSuffix(k, "*") {
				pre := strings.TrimSuffix(k, "*")
				seen := map[string]bool{}
				for hk := range st.heap {
					if strings.HasPrefix(hk, pre) && !seen[hk] {
						seen[hk] = true
						expanded = append(expanded, hk)
					}
				}
				for hk := range ex.heapInits {
					if strings.HasPrefix(hk, pre) && !seen[hk] {
						seen[hk] = true
						expanded = append(expanded, hk)
					}
				}
				// arrays not yet seen: remember the prefix as havocked
				st.heap["__hvp."+pre] = ex.sc.Fresh("hvmark", SInt)
				continue
			}
			expanded = append(expanded, k)
		}
		sort.Strings(expanded)
		keys = expanded
		for _, k := range keys {
			cur, ok := st.heap[k]
			if !ok {
				cur, ok = ex.heapInits[k]
			}
			if ok {
				st.heap[k] = ex.sc.Fresh("hv."+k, cur.Sort)
				created = append(created, k)
			} else {
				// unknown sort yet: mark as havocked lazily
				st.heap["__hv."+k] = ex.sc.Fresh("hvmark", SInt)
			}
		}
	}
	na := ex.sc.Fresh("alloc", SInt)
	ex.sc.Assert(app(SBool, ">=", na, st.alloc))
	st.alloc = na
	for _, k := range created {
		ex.fieldInvAxiom(k, st.heap[k], na)
	}
}

func (ex *Exec) havocAll(st *State, where string) {
	ex.unsup("total heap havoc at " + where)
	ex.havocHeap(st, nil)
}

// after a total havoc, first-time reads of arrays must not return the initial
// version. heapGet2 wraps heapGet with that check.
func (ex *Exec) heapRead(st *State, key string, sort Sort) Term {
	if t, ok := st.heap[key]; ok {
		return t
	}
	ep, epoch := st.heap["__epoch"]
	mk, mark := st.heap["__hv."+key]
	if !mark {
		var hks []string
		for hk := range st.heap {
			if strings.HasPrefix(hk, "__hvp.") && strings.HasPrefix(key, hk[6:]) {
				hks = append(hks, hk)
			}
		}
		if len(hks) > 0 {
			sort2 := hks
			sortStrings(sort2)
			mk, mark = st.heap[sort2[0]], true
		}
	}
	if epoch || mark {
		// the array is named after the havoc that made it unknown, so that two
		// states sharing that havoc (a loop head and a later point, for old())
		// read the same array
		tag := ep
		if mark {
			tag = mk
		}
		name := smtIdent("hv." + key + "@" + tag.S)
		_, seen := ex.sc.declared[name]
		t := ex.sc.Declare(name, sort)
		st.heap[key] = t
		if !seen {
			ex.fieldInvAxiom(key, t, st.alloc)
		}
		return t
	}
	return ex.heapInit(key, sort)
}

func (ex *Exec) newRef(st *State, hint string) Term {
	r := ex.sc.Name("ref."+hint, st.alloc)
	if r.S == st.alloc.S {
		r = ex.sc.Fresh("ref."+hint, SInt)
		ex.sc.Assert(Eq(r, st.alloc))
	}
	st.alloc = ex.sc.Name("alloc", app(SInt, "+", st.alloc, IntLit(1)))
	return r
}

// ---------------------------------------------------------------------------
// cells

func (ex *Exec) newCell(t types.Type, name string) *Cell {
	ex.ncell++
	return &Cell{id: ex.ncell, Typ: t, Name: name}
}

func getPath(v Val, path []int) Val {
	for _, i := range path {
		switch x := v.(type) {
		case StructV:
			if i >= len(x.F) {
				return Opaque{"path"}
			}
			v = x.F[i]
		case ArrV:
			if i >= len(x.Elems) {
				return Opaque{"path"}
			}
			v = x.Elems[i]
		default:
			return Opaque{"path into non-aggregate"}
		}
	}
	return v
}

func setPath(v Val, path []int, nv Val) Val {
	if len(path) == 0 {
		return nv
	}
	i := path[0]
	switch x := v.(type) {
	case StructV:
		fs := append([]Val{}, x.F...)
		if i < len(fs) {
			fs[i] = setPath(fs[i], path[1:], nv)
		}
		return StructV{Typ: x.Typ, F: fs}
	case ArrV:
		es := append([]Val{}, x.Elems...)
		if i < len(es) {
			es[i] = setPath(es[i], path[1:], nv)
		}
		return ArrV{Elem: x.Elem, Elems: es}
	}
	return Opaque{"setPath into non-aggregate"}
}

// ---------------------------------------------------------------------------
// load / store through any pointer value

func (ex *Exec) nilCheck(fr *Frame, ref Term, pos token.Pos, what string) {
	if !ex.checkPanics {
		return
	}
	if ex.nilChecked[fr.label+ref.S] {
		return
	}
	ex.nilChecked[fr.label+ref.S] = true
	txt := ex.ld.exprAt(pos, what)
	if txt == "" {
		txt = what
	}
	ex.oblige(fr, "nil", txt, fr.blockPC, Not(Eq(ref, IntLit(0))), pos)
}

func (ex *Exec) load(fr *Frame, st *State, p Val, t types.Type, pos token.Pos) Val {
	switch x := p.(type) {
	case CellPtr:
		return getPath(st.cells[x.C], x.Path)
	case HeapPtr:
		ex.nilCheck(fr, x.Base, pos, "field")
		return ex.loadHeap(st, x.Base, x.Root, x.Path)
	case GlobalPtr:
		return ex.loadGlobal(st, x, t)
	case ElemPtr:
		return ex.loadElem(st, x)
	case SV:
		ex.nilCheck(fr, x.T, pos, "deref")
		return ex.loadHeapTyped(st, x.T, t, t, nil, "")
	}
	ex.unsup(fmt.Sprintf("load through %T", p))
	return ex.freshVal(t, "ld")
}

func (ex *Exec) store(fr *Frame, st *State, p Val, v Val, t types.Type, pos token.Pos) {
	switch x := p.(type) {
	case CellPtr:
		st.cells[x.C] = setPath(st.cells[x.C], x.Path, v)
		return
	case HeapPtr:
		ex.nilCheck(fr, x.Base, pos, "field")
		ex.storeFr, ex.storePos = fr, pos
		ex.storeHeap(st, x.Base, x.Root, x.Path, v)
		ex.storeFr = nil
		return
	case GlobalPtr:
		ex.storeGlobal(st, x, t, v)
		return
	case ElemPtr:
		ex.storeElem(st, x, v)
		return
	case SV:
		ex.nilCheck(fr, x.T, pos, "deref")
		ex.storeFr, ex.storePos = fr, pos
		ex.storeHeapTyped(st, x.T, t, t, "", v)
		ex.storeFr = nil
		return
	}
	ex.unsup(fmt.Sprintf("store through %T", p))
	ex.havocAll(st, "exec.go:669")
}

func elemKey(t types.Type) string { return "E." + typeName(t) }

// elemLeaves: the scalar leaves of a slice element type. A scalar element has
// one leaf with an empty name (array E.<type>); a struct element has one
// array per scalar field (E.<type>.<field>).
func elemLeaves(elem types.Type) ([]leafT, bool) {
	var ls []leafT
	structLeaves(elem, nil, "", &ls)
	for _, l := range ls {
		if l.sort == "" {
			return nil, false
		}
	}
	return ls, len(ls) > 0
}

func elemLeafKey(elem types.Type, l leafT) string {
	if l.name == "" {
		return elemKey(elem)
	}
	return elemKey(elem) + "." + l.name
}

func hasPrefixPath(p, prefix []int) bool {
	if len(p) < len(prefix) {
		return false
	}
	for i := range prefix {
		if p[i] != prefix[i] {
			return false
		}
	}
	return true
}

// buildFromLeaves assembles the value of type t at path from leaf values.
func buildFromLeaves(t types.Type, path []int, get func(path []int) Val) Val {
	if _, ok := scalarSort(t); ok {
		return get(path)
	}
	if u, ok := t.Underlying().(*types.Struct); ok {
		fs := make([]Val, u.NumFields())
		for i := range fs {
			fs[i] = buildFromLeaves(u.Field(i).Type(), append(append([]int{}, path...), i), get)
		}
		return StructV{Typ: t, F: fs}
	}
	return Opaque{"elem " + t.String()}
}

func pathKey(p []int) string { return fmt.Sprint(p) }

func (ex *Exec) loadElem(st *State, p ElemPtr) Val {
	ls, ok := elemLeaves(p.Elem)
	if !ok {
		ex.unsup("slice of non-scalar " + p.Elem.String())
		return ex.freshVal(p.Elem, "elem")
	}
	t, _ := typeAtPath(p.Elem, p.Path)
	if t == nil {
		return ex.freshVal(p.Elem, "elem")
	}
	vals := map[string]Val{}
	for _, l := range ls {
		if !hasPrefixPath(l.path, p.Path) {
			continue
		}
		E := ex.heapRead(st, elemLeafKey(p.Elem, l), ArraySort(SInt, ArraySort(SInt, l.sort)))
		v := ex.sc.Name("elem", Select(Select(E, p.Arr), p.Idx))
		ex.assumeLoaded(st, l.typ, v)
		vals[pathKey(l.path)] = SV{v}
	}
	return buildFromLeaves(t, append([]int{}, p.Path...), func(path []int) Val { return vals[pathKey(path)] })
}

func leafOf(v Val, rel []int) Val {
	for _, i := range rel {
		sv, ok := v.(StructV)
		if !ok || i >= len(sv.F) {
			return nil
		}
		v = sv.F[i]
	}
	return v
}

func (ex *Exec) storeElem(st *State, p ElemPtr, v Val) {
	ls, ok := elemLeaves(p.Elem)
	if !ok {
		ex.unsup("slice of non-scalar " + p.Elem.String())
		ex.havocAll(st, "exec.go:690")
		return
	}
	for _, l := range ls {
		if !hasPrefixPath(l.path, p.Path) {
			continue
		}
		lv := leafOf(v, l.path[len(p.Path):])
		key := elemLeafKey(p.Elem, l)
		E := ex.heapRead(st, key, ArraySort(SInt, ArraySort(SInt, l.sort)))
		var t Term
		if lv == nil {
			ex.unsup("store of a non-struct value into a struct element")
			t = ex.sc.Fresh("elemst", l.sort)
		} else {
			t = ex.term(lv, l.sort)
		}
		if l.sort == SBool && ex.useCount() {
			// counting theory for []bool (see countPrelude): the count over any
			// window changes by the difference at the stored index
			row := ex.sc.Name("cntrow", Select(E, p.Arr))
			row2 := ex.sc.Name("cntrow", Store(row, p.Idx, t))
			ex.sc.Assert(T(SBool, fmt.Sprintf("(forall ((lo Int) (hi Int)) (! (= (cnt.bool %s lo hi) (+ (cnt.bool %s lo hi) (ite (and (<= lo %s) (< %s hi)) (- (ite %s 1 0) (ite (select %s %s) 1 0)) 0))) :pattern ((cnt.bool %s lo hi))))",
				row2.S, row.S, p.Idx.S, p.Idx.S, t.S, row.S, p.Idx.S, row2.S)))
			ex.heapSet(st, key, Store(E, p.Arr, row2))
			continue
		}
		ex.heapSet(st, key, Store(E, p.Arr, Store(Select(E, p.Arr), p.Idx, t)))
	}
}

// useCount: the contract under verification speaks about counttrue(...).
func (ex *Exec) useCount() bool {
	return ex.contract != nil && ex.contract.UsesCount
}

// countPrelude: cnt.bool(row, lo, hi) is the number of true entries of row in
// [lo, hi). The theory is given by three facts, each a theorem of that
// definition: it lies between 0 and the window length, it is 0 for the
// all-false array (what make([]bool, n) gives), and a store changes it by the
// difference at the stored index (asserted at every store, storeElem).
const countPrelude = `(declare-fun cnt.bool ((Array Int Bool) Int Int) Int)
(assert (forall ((r (Array Int Bool)) (lo Int) (hi Int)) (! (and (<= 0 (cnt.bool r lo hi)) (<= (cnt.bool r lo hi) (ite (>= hi lo) (- hi lo) 0))) :pattern ((cnt.bool r lo hi)))))
(assert (forall ((lo Int) (hi Int)) (! (= (cnt.bool ((as const (Array Int Bool)) false) lo hi) 0) :pattern ((cnt.bool ((as const (Array Int Bool)) false) lo hi)))))`

func globalKey(g *ssa.Global) string {
	return "G." + g.Pkg.Pkg.Name() + "." + g.Name()
}

func (ex *Exec) loadGlobal(st *State, p GlobalPtr, t types.Type) Val {
	gt := p.G.Type().(*types.Pointer).Elem()
	if len(p.Path) == 0 && typeName(gt) == "*regexp.Regexp" {
		v := ex.heapRead(st, globalKey(p.G), SInt)
		ex.regexpFacts(p.G, v)
		return SV{v}
	}
	tt, name := typeAtPath(gt, p.Path)
	if tt == nil {
		return ex.freshVal(t, "g")
	}
	var ls []leafT
	structLeaves(tt, nil, "", &ls)
	if s, ok := scalarSort(tt); ok {
		k := globalKey(p.G)
		if name != "" {
			k += "." + name
		}
		v := ex.heapRead(st, k, s)
		return SV{v}
	}
	if u, ok := tt.Underlying().(*types.Struct); ok {
		fs := make([]Val, u.NumFields())
		for i := range fs {
			fs[i] = ex.loadGlobal(st, GlobalPtr{p.G, append(append([]int{}, p.Path...), i)}, u.Field(i).Type())
		}
		return StructV{Typ: tt, F: fs}
	}
	ex.unsup("global of type " + tt.String())
	return ex.freshVal(tt, "g")
}

func (ex *Exec) storeGlobal(st *State, p GlobalPtr, t types.Type, v Val) {
	gt := p.G.Type().(*types.Pointer).Elem()
	tt, name := typeAtPath(gt, p.Path)
	if tt == nil {
		ex.havocAll(st, "exec.go:738")
		return
	}
	if s, ok := scalarSort(tt); ok {
		k := globalKey(p.G)
		if name != "" {
			k += "." + name
		}
		st.heap[k] = ex.sc.Name("g", ex.term(v, s))
		return
	}
	if u, ok := tt.Underlying().(*types.Struct); ok {
		if sv, ok := v.(StructV); ok {
			for i := 0; i < u.NumFields(); i++ {
				ex.storeGlobal(st, GlobalPtr{p.G, append(append([]int{}, p.Path...), i)}, u.Field(i).Type(), sv.F[i])
			}
			return
		}
	}
	ex.unsup("global store of type " + tt.String())
	ex.havocAll(st, "exec.go:758")
}

// ---------------------------------------------------------------------------
// CFG helpers

type cfgInfo struct {
	order    []*ssa.BasicBlock
	backEdge map[[2]int]bool
	loops    map[*ssa.BasicBlock]*loopInfo
	irreducible bool
}

func analyseCFG(fn *ssa.Function) *cfgInfo {
	ci := &cfgInfo{backEdge: map[[2]int]bool{}, loops: map[*ssa.BasicBlock]*loopInfo{}}
	if len(fn.Blocks) == 0 {
		return ci
	}
	// DFS for back edges
	state := map[*ssa.BasicBlock]int{}
	var post []*ssa.BasicBlock
	var dfs func(b *ssa.BasicBlock)
	dfs = func(b *ssa.BasicBlock) {
		state[b] = 1
		for _, s := range b.Succs {
			switch state[s] {
			case 0:
				dfs(s)
			case 1:
				ci.backEdge[[2]int{b.Index, s.Index}] = true
				if !s.Dominates(b) {
					ci.irreducible = true
				}
			}
		}
		state[b] = 2
		post = append(post, b)
	}
	dfs(fn.Blocks[0])
	for i := len(post) - 1; i >= 0; i-- {
		ci.order = append(ci.order, post[i])
	}
	// natural loops
	for e := range ci.backEdge {
		src := fn.Blocks[e[0]]
		h := fn.Blocks[e[1]]
		li := ci.loops[h]
		if li == nil {
			li = &loopInfo{header: h, blocks: map[*ssa.BasicBlock]bool{h: true}}
			ci.loops[h] = li
		}
		var work []*ssa.BasicBlock
		if !li.blocks[src] {
			li.blocks[src] = true
			work = append(work, src)
		}
		for len(work) > 0 {
			b := work[len(work)-1]
			work = work[:len(work)-1]
			for _, p := range b.Preds {
				if !li.blocks[p] {
					li.blocks[p] = true
					work = append(work, p)
				}
			}
		}
	}
	return ci
}

// loopOrdinalOf maps a loop header to the ordinal of its for/range statement.
func (ex *Exec) assignLoopOrdinals(fn *ssa.Function, ci *cfgInfo) {
	// loop nesting (for outer(...) in the invariants of an inner loop)
	for _, li := range ci.loops {
		for _, lo := range ci.loops {
			if lo != li && lo.blocks[li.header] && (li.parent == nil || len(lo.blocks) < len(li.parent.blocks)) {
				li.parent = lo
			}
		}
	}
	loops := ex.ld.loopOrdinals(fn)
	if len(loops) == 0 {
		return
	}
	var hs []*ssa.BasicBlock
	for h := range ci.loops {
		hs = append(hs, h)
	}
	sort.Slice(hs, func(i, j int) bool { return hs[i].Index < hs[j].Index })
	used := map[int]bool{}
	// Each SSA loop belongs to the smallest for/range statement whose span
	// holds (nearly) all positioned instructions of the natural loop. Inner
	// loops are assigned first so that an outer loop cannot take their statement.
	sort.SliceStable(hs, func(i, j int) bool { return len(ci.loops[hs[i]].blocks) < len(ci.loops[hs[j]].blocks) })
	for _, h := range hs {
		li := ci.loops[h]
		var ps []token.Pos
		for b := range li.blocks {
			for _, in := range b.Instrs {
				if p := in.Pos(); p.IsValid() {
					ps = append(ps, p)
				}
			}
		}
		if len(ps) == 0 {
			continue
		}
		best := -1
		for i, l := range loops {
			if used[i] {
				continue
			}
			cover := 0
			for _, p := range ps {
				if p >= l.Pos() && p <= l.End() {
					cover++
				}
			}
			if os.Getenv("GV_DEBUG_LOOPS") != "" {
				fmt.Fprintf(os.Stderr, "  b%d cand %d [%s..%s] cover %d/%d\n", h.Index, i+1, ex.ld.posString(l.Pos()), ex.ld.posString(l.End()), cover, len(ps))
			}
			if cover*20 >= len(ps)*17 || (len(ps)-cover <= 1 && cover >= 3) {
				if best < 0 || (l.End()-l.Pos()) < (loops[best].End()-loops[best].Pos()) {
					best = i
				}
			}
		}
		if best >= 0 {
			li.ord = best + 1
			used[best] = true
		}
		if os.Getenv("GV_DEBUG_LOOPS") != "" {
			fmt.Fprintf(os.Stderr, "loop header b%d (%s) blocks=%d positions=%d -> ord %d\n", h.Index, h.Comment, len(li.blocks), len(ps), li.ord)
		}
	}
}

var _ = ast.Inspect

// regexpFacts asserts, for a package-level `regexp.MustCompile(literal)` that is
// never reassigned, what regexp/syntax says about its capture groups: their
// number and, per group, the minimal length of a non-empty capture. These are
// facts about the literal pattern computed from its syntax tree (exact).
func (ex *Exec) regexpFacts(g *ssa.Global, v Term) {
	key := "rxfacts:" + globalKey(g)
	if ex.nilChecked[key] {
		return
	}
	ex.nilChecked[key] = true
	ex.analyseGlobals()
	gi := ex.initOnly[g]
	if gi == nil || gi.why != "" && !gi.ok && !strings.Contains(gi.why, "initialiser") {
		return
	}
	pat, ok := regexpPatternOf(g)
	if !ok {
		pat, ok = ex.foldedRegexpPattern(g)
	}
	if !ok {
		return
	}
	re, err := syntax.Parse(pat, syntax.Perl)
	if err != nil {
		return
	}
	n := re.MaxCap()
	ex.sc.DeclareFun("sf.reNumSubexp", []Sort{SInt}, SInt)
	ex.sc.DeclareFun("sf.reGroupMinLen", []Sort{SInt, SInt}, SInt)
	ex.sc.DeclareFun("sf.reGroupDigits", []Sort{SInt, SInt}, SBool)
	ex.sc.Assert(app(SBool, ">", v, IntLit(0)))
	ex.sc.Assert(Eq(app(SInt, "sf.reNumSubexp", v), IntLit(int64(n))))
	mins := map[int]int{}
	digits := map[int]bool{}
	var walk func(r *syntax.Regexp)
	walk = func(r *syntax.Regexp) {
		if r.Op == syntax.OpCapture {
			mins[r.Cap] = rxMinLen(r.Sub[0])
			digits[r.Cap] = rxDigitsOnly(r.Sub[0])
		}
		for _, s := range r.Sub {
			walk(s)
		}
	}
	walk(re)
	for k := 1; k <= n; k++ {
		ex.sc.Assert(Eq(app(SInt, "sf.reGroupMinLen", v, IntLit(int64(k))), IntLit(int64(mins[k]))))
		ex.sc.Assert(Eq(app(SBool, "sf.reGroupDigits", v, IntLit(int64(k))), BoolLit(digits[k])))
	}
	ex.sc.Assert(Eq(app(SBool, "sf.reGroupDigits", v, IntLit(0)), tFalse))
	ex.sc.Assert(Eq(app(SInt, "sf.reGroupMinLen", v, IntLit(0)), IntLit(int64(rxMinLen(re)))))
	// a pattern without empty-width assertions that can match the empty
	// string finds a match (possibly empty) at the start of every input
	always := rxMinLen(re) == 0 && !rxHasAssertion(re)
	ex.sc.DeclareFun("sf.reAlwaysMatches", []Sort{SInt}, SBool)
	ex.sc.Assert(Eq(app(SBool, "sf.reAlwaysMatches", v), BoolLit(always)))
	ex.assumedUsed[fmt.Sprintf("regexp facts of %s from its literal pattern %q (regexp/syntax): %d groups, minimal lengths %v", g.Name(), pat, n, mins)] = true
}

// rxDigitsOnly: every word of r consists of ASCII digits only.
func rxDigitsOnly(r *syntax.Regexp) bool {
	switch r.Op {
	case syntax.OpEmptyMatch:
		return true
	case syntax.OpLiteral:
		for _, c := range r.Rune {
			if c < '0' || c > '9' {
				return false
			}
		}
		return true
	case syntax.OpCharClass:
		for i := 0; i+1 < len(r.Rune); i += 2 {
			if r.Rune[i] < '0' || r.Rune[i+1] > '9' {
				return false
			}
		}
		return true
	case syntax.OpCapture, syntax.OpPlus, syntax.OpStar, syntax.OpQuest, syntax.OpRepeat, syntax.OpConcat, syntax.OpAlternate:
		for _, s := range r.Sub {
			if !rxDigitsOnly(s) {
				return false
			}
		}
		return true
	}
	return false
}

func rxMinLen(r *syntax.Regexp) int {
	switch r.Op {
	case syntax.OpLiteral:
		n := 0
		for _, c := range r.Rune {
			n += utf8.RuneLen(c)
		}
		return n
	case syntax.OpCharClass, syntax.OpAnyCharNotNL, syntax.OpAnyChar:
		return 1
	case syntax.OpCapture:
		return rxMinLen(r.Sub[0])
	case syntax.OpConcat:
		n := 0
		for _, s := range r.Sub {
			n += rxMinLen(s)
		}
		return n
	case syntax.OpAlternate:
		m := -1
		for _, s := range r.Sub {
			if l := rxMinLen(s); m < 0 || l < m {
				m = l
			}
		}
		if m < 0 {
			return 0
		}
		return m
	case syntax.OpPlus:
		return rxMinLen(r.Sub[0])
	case syntax.OpRepeat:
		return r.Min * rxMinLen(r.Sub[0])
	}
	return 0
}

// foldedRegexpPattern: patterns built with fmt.Sprintf from constants
// (dateRegexp, dateRangeRegexp): fold the Sprintf with the real fmt package.
func (ex *Exec) foldedRegexpPattern(g *ssa.Global) (string, bool) {
	initFn := g.Pkg.Func("init")
	if initFn == nil {
		return "", false
	}
	for _, b := range initFn.Blocks {
		for _, in := range b.Instrs {
			st, ok := in.(*ssa.Store)
			if !ok || st.Addr != g {
				continue
			}
			call, ok := st.Val.(*ssa.Call)
			if !ok {
				return "", false
			}
			f, ok := call.Call.Value.(*ssa.Function)
			if !ok || f.String() != "regexp.MustCompile" || len(call.Call.Args) != 1 {
				return "", false
			}
			sp, ok := call.Call.Args[0].(*ssa.Call)
			if !ok {
				return "", false
			}
			sf, ok := sp.Call.Value.(*ssa.Function)
			if !ok || sf.String() != "fmt.Sprintf" {
				return "", false
			}
			format, ok := sp.Call.Args[0].(*ssa.Const)
			if !ok {
				return "", false
			}
			sl, ok := sp.Call.Args[1].(*ssa.Slice)
			if !ok {
				return "", false
			}
			arr, ok := sl.X.(*ssa.Alloc)
			if !ok {
				return "", false
			}
			vals := map[int64]interface{}{}
			for _, r := range *arr.Referrers() {
				ia, ok := r.(*ssa.IndexAddr)
				if !ok {
					continue
				}
				idx, ok := ia.Index.(*ssa.Const)
				if !ok {
					return "", false
				}
				for _, r2 := range *ia.Referrers() {
					if s2, ok := r2.(*ssa.Store); ok {
						mi, ok := s2.Val.(*ssa.MakeInterface)
						if !ok {
							return "", false
						}
						c, ok := mi.X.(*ssa.Const)
						if !ok || c.Value == nil || c.Value.Kind() != constant.String {
							return "", false
						}
						vals[idx.Int64()] = constant.StringVal(c.Value)
					}
				}
			}
			var args []interface{}
			for i := int64(0); i < int64(len(vals)); i++ {
				args = append(args, vals[i])
			}
			return fmt.Sprintf(constant.StringVal(format.Value), args...), true
		}
	}
	return "", false
}

// heapReadAny returns the current version of a heap array whose sort is not
// known at the call site; the zero Term when the array has not been seen yet
// (it is then marked havocked so that a later first read is fresh).
func (ex *Exec) heapReadAny(st *State, key string) Term {
	if t, ok := st.heap[key]; ok {
		return t
	}
	if _, epoch := st.heap["__epoch"]; !epoch {
		if _, mark := st.heap["__hv."+key]; !mark {
			if t, ok := ex.heapInits[key]; ok {
				return t
			}
		}
	}
	st.heap["__hv."+key] = ex.sc.Fresh("hvmark", SInt)
	return Term{}
}

// rxHasAssertion: the pattern contains an anchor or a word-boundary assertion.
func rxHasAssertion(r *syntax.Regexp) bool {
	switch r.Op {
	case syntax.OpBeginLine, syntax.OpEndLine, syntax.OpBeginText, syntax.OpEndText, syntax.OpWordBoundary, syntax.OpNoWordBoundary, syntax.OpNoMatch:
		return true
	}
	for _, s := range r.Sub {
		if rxHasAssertion(s) {
			return true
		}
	}
	return false
}

func sortStrings(xs []string) { sort.Strings(xs) }
