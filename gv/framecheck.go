package main

import (
	"fmt"
	"path"
	"sort"
	"strings"

	"golang.org/x/tools/go/ssa"
)

func matchField(patterns []string, groups map[string][]string, field string) bool {
	for _, p := range patterns {
		if strings.HasPrefix(p, "@") {
			if matchField(groups[p[1:]], groups, field) {
				return true
			}
			continue
		}
		if ok, _ := path.Match(p, field); ok {
			return true
		}
		if strings.HasSuffix(p, "*") && strings.HasPrefix(field, strings.TrimSuffix(p, "*")) {
			return true
		}
	}
	return false
}

func regionName(fn *ssa.Function, reg int) string {
	switch reg {
	case regGlobal:
		return "global"
	case regUnknown:
		return "unknown"
	}
	if reg < len(fn.Params) {
		return "param:" + fn.Params[reg].Name()
	}
	j := reg - len(fn.Params)
	if j < len(fn.FreeVars) {
		return "captured:" + fn.FreeVars[j].Name()
	}
	return fmt.Sprintf("param%d", reg)
}

func objName(fn *ssa.Function, o Obj) string {
	if o.Region == regGlobal && o.Path != "" {
		return "global:" + o.Path
	}
	if o.Region == regSite {
		if o.Site.Parent() == nil {
			return "fresh"
		}
		return "fresh:" + o.Site.Name() + "@" + o.Site.Parent().Name()
	}
	n := regionName(fn, o.Region)
	if o.Path != "" {
		n += "[" + o.Path + "]"
	}
	return n
}

func witnessTail(w *Witness) (storeFn, siteFn string) {
	if w == nil || len(w.Chain) == 0 {
		return "?", "?"
	}
	storeFn = w.Chain[len(w.Chain)-1]
	siteFn = storeFn
	// the site is the nearest caller that is not just a promoted-method wrapper
	// of the storing method (wrappers share its method name)
	meth := storeFn
	if i := strings.LastIndex(meth, "."); i >= 0 {
		meth = meth[i:]
	}
	for i := len(w.Chain) - 2; i >= 0; i-- {
		siteFn = w.Chain[i]
		if !strings.HasSuffix(siteFn, meth) {
			break
		}
	}
	return
}

// runFrames checks every frame contract tagged with the property.
func (ctx *checkCtx) runFrames() *JobResult {
	var specs []*FrameSpec
	skipped := 0
	for _, f := range ctx.cs.Frames {
		if hasProp(f.Props, ctx.prop) {
			if f.Thorough && ctx.tier != "thorough" {
				skipped++
				continue
			}
			specs = append(specs, f)
		}
	}
	if skipped > 0 && len(specs) == 0 {
		return &JobResult{Notes: []string{fmt.Sprintf("%d frame contract(s) of %s are checked in the thorough tier only (whole-package effect summaries take minutes)", skipped, ctx.prop)}}
	}
	if len(specs) == 0 {
		return nil
	}
	jr := &JobResult{}
	if skipped > 0 {
		jr.Notes = append(jr.Notes, fmt.Sprintf("%d frame contract(s) of %s are checked in the thorough tier only", skipped, ctx.prop))
	}
	fa := NewFrameAnalysis(ctx.ld)
	for _, spec := range specs {
		fn := ctx.ld.Funcs[spec.Key]
		if fn == nil {
			jr.Records = append(jr.Records, &ObRecord{Name: spec.Key + "#frame-target", Kind: "target", Fn: spec.Key, Status: "refuted", Backend: "frame",
				Detail: "function under frame contract no longer exists in /repo (" + spec.File + ")"})
			continue
		}
		var fns []*ssa.Function
		if spec.Closures {
			var collect func(f *ssa.Function)
			collect = func(f *ssa.Function) {
				for _, a := range f.AnonFuncs {
					if spawnedClosure(a) {
						fns = append(fns, a)
					}
					collect(a)
				}
			}
			collect(fn)
			sort.Slice(fns, func(i, j int) bool { return fns[i].String() < fns[j].String() })
		} else {
			fns = []*ssa.Function{fn}
		}
		for _, f := range fns {
			ctx.checkFrame(jr, fa, spec, f)
		}
	}
	for a := range fa.assumptions {
		jr.Assumed = append(jr.Assumed, "frame: "+a)
	}
	return jr
}

func (ctx *checkCtx) checkFrame(jr *JobResult, fa *FrameAnalysis, spec *FrameSpec, fn *ssa.Function) {
	key := funcKey(fn)
	jr.Functions = append(jr.Functions, key)
	sum := fa.Summarise(fn, nil)
	add := func(name, kind, status, detail string) *ObRecord {
		r := &ObRecord{Name: name, Kind: kind, Fn: key, Status: status, Backend: "frame", Detail: detail, Decisive: true}
		if status != "proved" {
			if k := knownFor(name); k != nil && k.Property == ctx.prop {
				r.Kind = "known-site"
				r.Known = k.What
				r.KnownProp = k.Property
			} else if k != nil {
				// a finding recorded for another property: carved out here too, but silently
				r.Status = "proved"
				r.Detail = "carved out by known finding of " + k.Property + ": " + detail
			}
		}
		jr.Records = append(jr.Records, r)
		return r
	}
	// 1. writes to pre-existing objects
	type wk struct {
		k WriteKey
		w *Witness
	}
	var ws []wk
	src := sum.Writes
	if spec.NoUnsync {
		src = sum.Unsync
	}
	for k, w := range src {
		ws = append(ws, wk{k, w})
	}
	sort.Slice(ws, func(i, j int) bool {
		if ws[i].k.Field != ws[j].k.Field {
			return ws[i].k.Field < ws[j].k.Field
		}
		if ws[i].k.Obj.Region != ws[j].k.Obj.Region {
			return ws[i].k.Obj.Region < ws[j].k.Obj.Region
		}
		if ws[i].k.Obj.Path != ws[j].k.Obj.Path {
			return ws[i].k.Obj.Path < ws[j].k.Obj.Path
		}
		return witnessLess(ws[i].w, ws[j].w)
	})
	seenName := map[string]bool{}
	for _, x := range ws {
		storeFn, siteFn := witnessTail(x.w)
		kind := "writes"
		if spec.NoUnsync {
			kind = "unsync-write"
		}
		name := fmt.Sprintf("%s#%s:%s@%s<-%s", key, kind, x.k.Field, storeFn, siteFn)
		allowed := matchField(spec.Allows, ctx.cs.FieldGroups, x.k.Field)
		if len(spec.Denies) > 0 && !matchField(spec.Denies, ctx.cs.FieldGroups, x.k.Field) {
			allowed = true
		}
		if spec.NoGlobals && x.k.Obj.Region == regGlobal {
			// no process-wide state: nothing reachable from a package-level variable may be
			// written, except under the variables the contract names
			allowed = x.k.Obj.Path != "" && matchField(spec.AllowGlobals, ctx.cs.FieldGroups, x.k.Obj.Path)
		}
		if strings.HasPrefix(x.k.Field, "global:") && spec.NoGlobals && !allowed {
			allowed = false
		}
		if allowed {
			// a permitted write is recorded once per field: which of several
			// call chains the analysis met first is not part of its name
			name = fmt.Sprintf("%s#%s:%s", key, kind, x.k.Field)
		}
		if seenName[name] {
			continue
		}
		seenName[name] = true
		detail := fmt.Sprintf("may write %s of objects in region %s; witness chain: %s (%s)", x.k.Field, objName(fn, x.k.Obj), strings.Join(x.w.Chain, " -> "), x.w.Pos)
		if allowed {
			add(name, kind, "proved", "")
		} else {
			add(name, kind, "refuted", detail)
		}
	}
	// 2. unresolved calls make the frame unknown
	if len(sum.Unknowns) > 0 {
		var ks []string
		for k, w := range sum.Unknowns {
			ks = append(ks, k+" via "+strings.Join(w.Chain, " -> "))
		}
		sort.Strings(ks)
		st := "unknown"
		if spec.NoUnknown {
			st = "refuted"
		}
		add(key+"#frame:no-unresolved-calls", "frame", st, strings.Join(ks, "; "))
	} else {
		add(key+"#frame:no-unresolved-calls", "frame", "proved", "")
	}
	// 3. freshness of the result: the result and everything reachable from it
	// through the listed link fields was created during the call
	if len(spec.ResultFresh) > 0 {
		if sum.Ret.nonFresh() {
			add(key+"#result-fresh:root", "result-fresh", "refuted", "result itself may be "+sum.Ret.String())
		} else {
			add(key+"#result-fresh:root", "result-fresh", "proved", "")
		}
		follow := append([]string{"^SimpleNode", "^simpleDocumentNode"}, spec.ResultFresh...)
		bad := map[string]string{}
		okFields := map[string]bool{}
		seen := map[ssa.Value]bool{}
		var work []ssa.Value
		for s := range sum.Ret.Sites {
			work = append(work, s)
		}
		for len(work) > 0 {
			s := work[len(work)-1]
			work = work[:len(work)-1]
			if seen[s] {
				continue
			}
			seen[s] = true
			for f, c := range sum.SiteContent[s] {
				if !matchField(follow, ctx.cs.FieldGroups, f) {
					continue
				}
				if c.nonFresh() {
					nf := SumOrg{Par: c.Par, Global: c.Global, Unknown: c.Unknown}
					bad[f] = fmt.Sprintf("objects reachable from the result through %s may be %s (shared with the inputs); object created at %s", f, nf.String(), ctx.ld.posString(s.Pos()))
				} else if _, isBad := bad[f]; !isBad {
					okFields[f] = true
				}
				for s2 := range c.Sites {
					if !seen[s2] {
						work = append(work, s2)
					}
				}
			}
		}
		var fs []string
		for f := range okFields {
			fs = append(fs, f)
		}
		for f := range bad {
			fs = append(fs, f)
		}
		sort.Strings(fs)
		for i, f := range fs {
			if i > 0 && fs[i-1] == f {
				continue
			}
			if d, isBad := bad[f]; isBad {
				add(key+"#result-fresh:"+f, "result-fresh", "refuted", d)
			} else {
				add(key+"#result-fresh:"+f, "result-fresh", "proved", "")
			}
		}
	}
	jr.Samples = append(jr.Samples, map[string]interface{}{"frame_summary_of": key, "writes": len(sum.Writes), "links": len(sum.Links), "result": sum.Ret.String()})
}

// spawnedClosure: the closure runs concurrently with its creator: it is the
// function of a `go` statement or is handed to util.WorkerPool (or is nested
// in such a closure).
func spawnedClosure(fn *ssa.Function) bool {
	parent := fn.Parent()
	if parent == nil {
		return false
	}
	for _, b := range parent.Blocks {
		for _, in := range b.Instrs {
			mc, ok := in.(*ssa.MakeClosure)
			if !ok || mc.Fn != fn {
				continue
			}
			for _, r := range *mc.Referrers() {
				switch u := r.(type) {
				case *ssa.Go:
					if u.Call.Value == mc {
						return true
					}
				case *ssa.Call:
					if callee, ok := u.Call.Value.(*ssa.Function); ok && callee.Name() == "WorkerPool" {
						return true
					}
				}
			}
		}
	}
	if parent.Parent() != nil && spawnedClosure(parent) {
		return true
	}
	return false
}
