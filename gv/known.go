package main

// Known findings: /verif/known_findings.json, committed, never written at run
// time. An entry carves the failing inputs out of one named obligation.

import (
	"encoding/json"
	"fmt"
	"go/ast"
	"go/parser"
	"os"
	"strings"
)

type Known struct {
	Property   string `json:"property"`
	Obligation string `json:"obligation"`
	When       string `json:"when,omitempty"`
	What       string `json:"what"`
	Canary     string `json:"canary,omitempty"` // replay file under /verif/canaries
	Fixed      string `json:"fixed,omitempty"`  // commit of the fix: entry is a record only
	Site       string `json:"site,omitempty"`   // for frame/taint findings: the call site / field
	History    string `json:"history,omitempty"` // a finding no obligation expresses: the sequence of calls that fails (its canary is replayed)
	whenExpr   ast.Expr
}

var knownList []*Known
var knownByObl = map[string]*Known{}

func loadKnown() error {
	data, err := os.ReadFile(verifDir() + "/known_findings.json")
	if err != nil {
		if os.IsNotExist(err) {
			return nil
		}
		return err
	}
	var file struct {
		Findings []*Known `json:"findings"`
	}
	if err := json.Unmarshal(data, &file); err != nil {
		return fmt.Errorf("known_findings.json: %v", err)
	}
	for _, k := range file.Findings {
		if k.Fixed != "" {
			continue
		}
		if k.When != "" {
			e, err := parser.ParseExpr(k.When)
			if err != nil {
				return fmt.Errorf("known_findings.json: when %q: %v", k.When, err)
			}
			k.whenExpr = e
		}
		knownList = append(knownList, k)
		if k.Obligation == "" {
			continue // a history finding: reported by replaying its canary
		}
		knownByObl[k.Obligation] = k
	}
	return nil
}

func knownFor(obligation string) *Known {
	if k, ok := knownByObl[obligation]; ok {
		return k
	}
	// patterns: a leading "*" matches any prefix (e.g. any goroutine body)
	for _, k := range knownList {
		if strings.HasPrefix(k.Obligation, "*") && strings.HasSuffix(obligation, k.Obligation[1:]) {
			return k
		}
	}
	return nil
}
