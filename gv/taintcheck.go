package main

import (
	"fmt"
	"sort"
)

func init() {
	extraJobs["C18"] = append(extraJobs["C18"], func(ctx *checkCtx) *JobResult { return ctx.runTaint(htmlSpec()) })
	extraJobs["C19"] = append(extraJobs["C19"], func(ctx *checkCtx) *JobResult { return ctx.runTaint(fnameSpec()) })
}

func (ctx *checkCtx) runTaint(spec *PredicateSpec) *JobResult {
	jr := &JobResult{}
	ta := NewTaintAnalysis(ctx.ld, spec)
	ta.Run()
	for _, fn := range ta.fns {
		jr.Functions = append(jr.Functions, funcKey(fn))
	}
	var names []string
	for n := range ta.proved {
		names = append(names, n)
	}
	sort.Strings(names)
	for _, n := range names {
		// an obligation is proved only if no dependency refuted it
		bad := false
		for fn := range ta.findings {
			if len(fn) > len(n) && fn[:len(n)] == n && fn[len(n)] == '@' {
				bad = true
			}
		}
		if !bad {
			jr.Records = append(jr.Records, &ObRecord{Name: n, Kind: spec.Name, Fn: fnOfName(n), Status: "proved", Backend: "ghost"})
		}
	}
	var fnames []string
	for n := range ta.findings {
		fnames = append(fnames, n)
	}
	sort.Strings(fnames)
	for _, n := range fnames {
		f := ta.findings[n]
		r := &ObRecord{Name: n, Kind: spec.Name, Fn: f.Fn, Status: "refuted", Backend: "ghost", Detail: f.Detail, Pos: f.Pos, Decisive: true}
		if k := knownFor(n); k != nil {
			if k.Property == ctx.prop {
				r.Kind = "known-site"
				r.Known = k.What
				r.KnownProp = k.Property
			} else {
				r.Status = "proved"
			}
		}
		jr.Records = append(jr.Records, r)
	}
	// the derived contracts: which parameters of exported functions and which fields carry the predicate
	var reqs []string
	for _, fn := range ta.fns {
		s := ta.sums[fn]
		if s == nil {
			continue
		}
		for i := range s.Req {
			pn := fmt.Sprintf("arg%d", i)
			if i < len(fn.Params) {
				pn = fn.Params[i].Name()
			}
			reqs = append(reqs, fmt.Sprintf("requires %s(%s) on %s", spec.Name, pn, funcKey(fn)))
		}
		for i := range s.ReqKeys {
			if i < len(fn.Params) {
				reqs = append(reqs, fmt.Sprintf("requires %s(keys of %s) on %s", spec.Name, fn.Params[i].Name(), funcKey(fn)))
			}
		}
	}
	sort.Strings(reqs)
	var finv []string
	for f := range ta.fieldReq {
		finv = append(finv, "invariant "+spec.Name+" on field "+f)
	}
	sort.Strings(finv)
	jr.Samples = append(jr.Samples, map[string]interface{}{"derived_preconditions": reqs, "derived_field_invariants": finv})
	for a := range ta.assumptions {
		jr.Assumed = append(jr.Assumed, "ghost: "+a)
	}
	jr.Assumed = append(jr.Assumed, "ghost: string transformations of external packages (strings.*, fmt.Sprint*, ...) preserve the predicate of their text arguments; string literals of the analysed packages are trusted markup")
	return jr
}

func fnOfName(n string) string {
	for i := 0; i < len(n); i++ {
		if n[i] == '#' {
			return n[:i]
		}
	}
	return n
}
