package main

// Evaluation of contract expressions (Go expression syntax) to symbolic values.

import (
	"fmt"
	"go/ast"
	"go/constant"
	"go/token"
	"go/types"
	"math/big"
	"strconv"
	"strings"

	"golang.org/x/tools/go/ssa"
)

type TV struct {
	V Val
	T types.Type // may be nil for pure logical values
}

type Env struct {
	ex    *Exec
	fr    *Frame
	vars  map[string]TV
	st    *State
	old   *State
	bound map[string]Term
	depth int
	oldVars map[string]TV // values of loop-carried locals at the head of the iteration (loop iter clauses)
	outer *State // invariants of an inner loop: state at the head of the enclosing loop's current iteration
}

func (ex *Exec) newEnv(fr *Frame, st, old *State) *Env {
	return &Env{ex: ex, fr: fr, vars: map[string]TV{}, st: st, old: old, bound: map[string]Term{}}
}

func (e *Env) child() *Env {
	n := &Env{ex: e.ex, fr: e.fr, vars: map[string]TV{}, st: e.st, old: e.old, bound: map[string]Term{}, depth: e.depth + 1, oldVars: e.oldVars, outer: e.outer}
	for k, v := range e.vars {
		n.vars[k] = v
	}
	for k, v := range e.bound {
		n.bound[k] = v
	}
	return n
}

func (ex *Exec) evalBool(c Clause, env *Env) Term {
	v := ex.eval(c.Expr, env)
	return ex.term(v.V, SBool)
}

func (ex *Exec) evalErr(msg string, args ...interface{}) TV {
	ex.unsup("contract expression: " + fmt.Sprintf(msg, args...))
	return TV{Opaque{fmt.Sprintf(msg, args...)}, nil}
}

// loopEnv: names visible in loop invariants: parameters, named locals (phis
// by comment, allocs by comment), ghost variables.
func (ex *Exec) loopEnv(fr *Frame, st *State) *Env {
	env := ex.newEnv(fr, st, fr.entry)
	for n, v := range fr.params {
		env.vars[n+"0"] = TV{v, fr.ptypes[n]}
		if _, shadow := env.vars[n]; !shadow {
			env.vars[n] = TV{v, fr.ptypes[n]}
		}
	}
	// current values of named locals
	phiFor := map[string]*ssa.Phi{}
	for v, val := range fr.regs {
		switch x := v.(type) {
		case *ssa.Phi:
			if x.Comment != "" && x.Block() != nil {
				// the phi of the innermost enclosing loop header wins: among the
				// phis whose block dominates the current block, the one lowest in
				// the dominator tree (deterministic, regs is a map)
				if fr.curBlock != nil && (x.Block() == fr.curBlock || x.Block().Dominates(fr.curBlock)) {
					if prev, ok := phiFor[x.Comment]; ok {
						if !(prev.Block().Dominates(x.Block()) && prev.Block() != x.Block()) {
							if !(prev.Block() == x.Block() && x.Name() > prev.Name()) {
								continue
							}
						}
					}
					phiFor[x.Comment] = x
					env.vars[x.Comment] = TV{val, x.Type()}
				}
			}
		case *ssa.Alloc:
			if x.Comment != "" && !strings.Contains(x.Comment, " ") {
				elem := x.Type().(*types.Pointer).Elem()
				env.vars[x.Comment] = TV{ex.load(fr, st, val, elem, token.NoPos), elem}
			}
		}
	}
	for n, sv := range fr.debugVals {
		if _, ok := env.vars[n]; ok {
			// a parameter that has been reassigned: its plain name means the
			// current value (NAME0 the entry value), provided the new value
			// was computed on every path to this point
			if _, isParam := fr.params[n]; isParam && phiFor[n] == nil && fr.curBlock != nil {
				if _, same := sv.(*ssa.Parameter); !same {
					if in, isInstr := sv.(ssa.Instruction); isInstr && in.Block() != nil && (in.Block() == fr.curBlock || in.Block().Dominates(fr.curBlock)) {
						if val, ok := fr.regs[sv]; ok {
							env.vars[n] = TV{val, sv.Type()}
						}
					}
				}
			}
			continue
		}
		if val, ok := fr.regs[sv]; ok {
			if _, isAlloc := sv.(*ssa.Alloc); !isAlloc {
				env.vars[n] = TV{val, sv.Type()}
			}
		} else if _, isAlloc := sv.(*ssa.Alloc); !isAlloc && ex.sc.inQuant == 0 {
			// a named local that this path has not assigned yet: any value
			if fv := ex.freshVal(sv.Type(), "unset."+n); fv != nil {
				if _, bad := fv.(Opaque); !bad {
					env.vars[n] = TV{fv, sv.Type()}
				}
			}
		}
	}
	for g, v := range st.ghost {
		env.vars[g] = TV{v, nil}
	}
	if ex.contract != nil {
		for _, l := range ex.contract.Lets {
			if _, ok := env.vars[l.Label]; !ok {
				// lets are evaluated at entry and stored in params map by verify
				if v, ok := fr.params["let."+l.Label]; ok {
					env.vars[l.Label] = TV{v, nil}
				}
			}
		}
	}
	return env
}

func (ex *Exec) eval(e ast.Expr, env *Env) TV {
	switch x := e.(type) {
	case *ast.ParenExpr:
		return ex.eval(x.X, env)
	case *ast.BasicLit:
		switch x.Kind {
		case token.INT:
			return TV{SV{BigIntLit(x.Value)}, types.Typ[types.UntypedInt]}
		case token.FLOAT:
			r, ok := new(big.Rat).SetString(x.Value)
			if !ok {
				return ex.evalErr("float literal %s", x.Value)
			}
			return TV{SV{ratTerm(r)}, types.Typ[types.UntypedFloat]}
		case token.STRING:
			s, err := strconv.Unquote(x.Value)
			if err != nil {
				return ex.evalErr("string literal %s", x.Value)
			}
			return TV{SV{ex.strLit(s)}, types.Typ[types.String]}
		case token.CHAR:
			s, _, _, err := strconv.UnquoteChar(x.Value[1:len(x.Value)-1], '\'')
			if err != nil {
				return ex.evalErr("char literal %s", x.Value)
			}
			return TV{SV{IntLit(int64(s))}, types.Typ[types.UntypedRune]}
		}
	case *ast.Ident:
		return ex.evalIdent(x.Name, env)
	case *ast.UnaryExpr:
		v := ex.eval(x.X, env)
		switch x.Op {
		case token.NOT:
			return TV{SV{Not(ex.term(v.V, SBool))}, types.Typ[types.Bool]}
		case token.SUB:
			t := ex.term(v.V, "")
			return TV{SV{app(t.Sort, "-", t)}, v.T}
		}
	case *ast.BinaryExpr:
		return ex.evalBinary(x, env)
	case *ast.SelectorExpr:
		return ex.evalSelector(x, env)
	case *ast.IndexExpr:
		base := ex.eval(x.X, env)
		idx := ex.eval(x.Index, env)
		return ex.evalIndex(base, idx, env)
	case *ast.CallExpr:
		return ex.evalCall(x, env)
	case *ast.StarExpr:
		p := ex.eval(x.X, env)
		if pt, ok := underPtr(p.T); ok {
			return TV{ex.load(env.fr, env.st, p.V, pt, token.NoPos), pt}
		}
	}
	return ex.evalErr("unsupported expression %T", e)
}

func underPtr(t types.Type) (types.Type, bool) {
	if t == nil {
		return nil, false
	}
	if p, ok := t.Underlying().(*types.Pointer); ok {
		return p.Elem(), true
	}
	return nil, false
}

func (ex *Exec) evalIdent(name string, env *Env) TV {
	if t, ok := env.bound[name]; ok {
		return TV{SV{t}, nil}
	}
	if env.fr != nil && env.fr.fn != nil {
		// a captured variable is held by reference: its name means its value
		for _, fv := range env.fr.fn.FreeVars {
			if fv.Name() == name {
				if pt, ok := fv.Type().Underlying().(*types.Pointer); ok {
					if pv, ok := env.fr.regs[fv]; ok {
						saved := ex.checkPanics
						ex.checkPanics = false
						v := ex.load(env.fr, env.st, pv, pt.Elem(), token.NoPos)
						ex.checkPanics = saved
						return TV{v, pt.Elem()}
					}
				}
			}
		}
	}
	if v, ok := env.vars[name]; ok {
		return v
	}
	switch name {
	case "true":
		return TV{SV{tTrue}, types.Typ[types.Bool]}
	case "false":
		return TV{SV{tFalse}, types.Typ[types.Bool]}
	case "nil":
		return TV{SV{T("nil", "nil")}, types.Typ[types.UntypedNil]}
	case "alloc":
		return TV{SV{env.st.alloc}, nil}
	case "alloc0":
		if env.old != nil {
			return TV{SV{env.old.alloc}, nil}
		}
		return TV{SV{env.st.alloc}, nil}
	}
	if c, ok := ex.cs.Consts[name]; ok {
		return ex.eval(c.Expr, ex.newEnv(env.fr, env.st, env.old))
	}
	if gi := ex.literalGlobal(env.fr, name); gi != nil {
		return TV{LitMapV{gi}, gi.g.Type().(*types.Pointer).Elem()}
	}
	if g := ex.pkgGlobal(env.fr, name); g != nil {
		gt := g.Type().(*types.Pointer).Elem()
		return TV{ex.loadGlobal(env.st, GlobalPtr{G: g}, gt), gt}
	}
	// package-level constants of the function's package
	if env.fr != nil {
		if tv, ok := ex.pkgConst(env.fr.fn, "", name); ok {
			return tv
		}
	}
	// A contract that names something the function does not have (a renamed
	// local or parameter) is stale: the function is undecided in this run, its
	// obligations raise no alarm (check.go).
	if ex.staleIdents == nil {
		ex.staleIdents = map[string]bool{}
	}
	ex.staleIdents[name] = true
	return ex.evalErr("unknown identifier %s", name)
}

func (ex *Exec) pkgConst(fn *ssa.Function, pkgName, name string) (TV, bool) {
	var pkg *types.Package
	f := fn
	for f != nil && f.Pkg == nil {
		f = f.Parent()
	}
	if f != nil && f.Pkg != nil {
		pkg = f.Pkg.Pkg
	}
	if pkg == nil {
		return TV{}, false
	}
	if pkgName != "" {
		var found *types.Package
		for _, imp := range pkg.Imports() {
			if imp.Name() == pkgName {
				found = imp
			}
		}
		if found == nil {
			for _, p := range ex.ld.Pkgs {
				if p.Types.Name() == pkgName {
					found = p.Types
				}
				for _, imp := range p.Types.Imports() {
					if imp.Name() == pkgName {
						found = imp
					}
				}
			}
		}
		if found == nil {
			return TV{}, false
		}
		pkg = found
	}
	obj := pkg.Scope().Lookup(name)
	c, ok := obj.(*types.Const)
	if !ok {
		return TV{}, false
	}
	s, sok := scalarSort(c.Type())
	if !sok {
		return TV{}, false
	}
	switch s {
	case SInt:
		if iv := constant.ToInt(c.Val()); iv.Kind() == constant.Int {
			return TV{SV{BigIntLit(iv.ExactString())}, c.Type()}, true
		}
	case SReal:
		r, ok := new(big.Rat).SetString(constant.ToFloat(c.Val()).ExactString())
		if ok {
			return TV{SV{ratTerm(r)}, c.Type()}, true
		}
	case SStr:
		return TV{SV{ex.strLit(constant.StringVal(c.Val()))}, c.Type()}, true
	case SBool:
		return TV{SV{BoolLit(constant.BoolVal(c.Val()))}, c.Type()}, true
	}
	return TV{}, false
}

func (ex *Exec) evalSelector(x *ast.SelectorExpr, env *Env) TV {
	// pkg.Const
	if id, ok := x.X.(*ast.Ident); ok {
		if _, isVar := env.vars[id.Name]; !isVar {
			if _, isB := env.bound[id.Name]; !isB && env.fr != nil {
				if tv, ok := ex.pkgConst(env.fr.fn, id.Name, x.Sel.Name); ok {
					return tv
				}
			}
		}
	}
	base := ex.eval(x.X, env)
	return ex.selectField(base, x.Sel.Name, env)
}

func (ex *Exec) selectField(base TV, name string, env *Env) TV {
	// an interface value whose payload is statically known (a struct boxed at
	// the call site, e.g. the key handed to sync.Map.Load): select in the payload
	if iv, ok := base.V.(IfaceV); ok && iv.Dyn != nil {
		if _, isStruct := iv.Dyn.Underlying().(*types.Struct); isStruct {
			return ex.selectField(TV{iv.Payload, iv.Dyn}, name, env)
		}
	}
	if base.T == nil {
		return ex.evalErr("field %s of untyped value", name)
	}
	t := base.T
	v := base.V
	// auto-deref
	if pt, ok := underPtr(t); ok {
		st, ok := pt.Underlying().(*types.Struct)
		if !ok {
			return ex.evalErr("field %s of pointer to non-struct", name)
		}
		idx, emb := findField(st, name)
		if idx < 0 {
			if emb >= 0 {
				inner := ex.selectField(base, st.Field(emb).Name(), env)
				return ex.selectField(inner, name, env)
			}
			return ex.evalErr("no field %s in %s", name, pt)
		}
		var ptr Val
		switch p := v.(type) {
		case SV:
			ptr = HeapPtr{Base: p.T, Root: pt, Path: []int{idx}}
		case HeapPtr:
			ptr = HeapPtr{Base: p.Base, Root: p.Root, Path: append(append([]int{}, p.Path...), idx)}
		case CellPtr:
			ptr = CellPtr{C: p.C, Path: append(append([]int{}, p.Path...), idx)}
		default:
			return ex.evalErr("field of %T", v)
		}
		ft := st.Field(idx).Type()
		saved := ex.checkPanics
		ex.checkPanics = false
		r := ex.load(env.fr, env.st, ptr, ft, token.NoPos)
		ex.checkPanics = saved
		return TV{r, ft}
	}
	if st, ok := t.Underlying().(*types.Struct); ok {
		idx, emb := findField(st, name)
		sv, isS := v.(StructV)
		if !isS {
			return ex.evalErr("field %s of non-struct value %T", name, v)
		}
		if idx < 0 {
			if emb >= 0 {
				return ex.selectField(TV{sv.F[emb], st.Field(emb).Type()}, name, env)
			}
			return ex.evalErr("no field %s in %s", name, t)
		}
		return TV{sv.F[idx], st.Field(idx).Type()}
	}
	return ex.evalErr("field %s of %s", name, t)
}

// findField returns the index of the named field, or (-1, index of an
// embedded field that has it).
func findField(st *types.Struct, name string) (int, int) {
	for i := 0; i < st.NumFields(); i++ {
		if st.Field(i).Name() == name {
			return i, -1
		}
	}
	for i := 0; i < st.NumFields(); i++ {
		f := st.Field(i)
		if !f.Embedded() {
			continue
		}
		t := f.Type()
		if p, ok := t.Underlying().(*types.Pointer); ok {
			t = p.Elem()
		}
		if s2, ok := t.Underlying().(*types.Struct); ok {
			if j, e := findField(s2, name); j >= 0 || e >= 0 {
				return -1, i
			}
		}
	}
	return -1, -1
}

func (ex *Exec) evalIndex(base, idx TV, env *Env) TV {
	i := ex.term(idx.V, "")
	switch b := base.V.(type) {
	case SV:
		if base.T != nil {
			if mt, ok := base.T.Underlying().(*types.Map); ok {
				// m[k] on a heap map: zero value when the key is absent
				ks, kok := scalarSort(mt.Key())
				vs, vok := scalarSort(mt.Elem())
				if kok && vok {
					m := b.T
					k := ex.term(idx.V, ks)
					valA := ex.heapRead(env.st, mapKey(mt)+".val", ArraySort(SInt, ArraySort(ks, vs)))
					hasA := ex.heapRead(env.st, mapKey(mt)+".has", ArraySort(SInt, ArraySort(ks, SBool)))
					has := And(Not(Eq(m, IntLit(0))), Select(Select(hasA, m), k))
					return TV{SV{Ite(has, Select(Select(valA, m), k), zeroTerm(vs))}, mt.Elem()}
				}
			}
		}
		if strings.HasPrefix(string(b.T.Sort), "(Array ") && base.T == nil {
			// ghost array
			ks, _ := arrayKV(b.T.Sort)
			return TV{SV{Select(b.T, ex.term(idx.V, ks))}, nil}
		}
		switch {
		case b.T.Sort == SStr:
			return TV{SV{app(SInt, "str.at_", b.T, i)}, types.Typ[types.Uint8]}
		case b.T.Sort == SSlice:
			var elem types.Type
			if base.T != nil {
				if st, ok := base.T.Underlying().(*types.Slice); ok {
					elem = st.Elem()
				}
			}
			if elem == nil {
				return ex.evalErr("index of untyped slice")
			}
			p := ElemPtr{Arr: app(SInt, "sl.arr", b.T), Idx: app(SInt, "+", app(SInt, "sl.off", b.T), i), Elem: elem}
			return TV{ex.loadElem(env.st, p), elem}
		case strings.HasPrefix(string(b.T.Sort), "(Array"):
			return TV{SV{Select(b.T, i)}, nil}
		}
	case ArrV:
		if n, err := strconv.Atoi(i.S); err == nil && n < len(b.Elems) {
			return TV{b.Elems[n], b.Elem}
		}
	case LitMapV:
		mt := b.gi.g.Type().(*types.Pointer).Elem().Underlying().(*types.Map)
		return TV{ex.lookupLiteralMap(b.gi, mt, idx.V, false), mt.Elem()}
	case CellSlice:
		// a variadic argument list: the cells are known one by one; a symbolic
		// index selects among them
		if av, ok := env.st.cells[b.C].(ArrV); ok {
			if srt, ok := scalarSort(av.Elem); ok && b.Hi <= len(av.Elems) && b.Hi > b.Lo {
				if n, err := strconv.Atoi(i.S); err == nil && b.Lo+n < b.Hi {
					return TV{av.Elems[b.Lo+n], av.Elem}
				}
				t := ex.term(av.Elems[b.Hi-1], srt)
				for k := b.Hi - 2; k >= b.Lo; k-- {
					t = Ite(Eq(i, IntLit(int64(k-b.Lo))), ex.term(av.Elems[k], srt), t)
				}
				return TV{SV{t}, av.Elem}
			}
		}
	}
	return ex.evalErr("index of %T", base.V)
}

func (ex *Exec) evalBinary(x *ast.BinaryExpr, env *Env) TV {
	a := ex.eval(x.X, env)
	b := ex.eval(x.Y, env)
	switch x.Op {
	case token.LAND:
		return TV{SV{And(ex.term(a.V, SBool), ex.term(b.V, SBool))}, types.Typ[types.Bool]}
	case token.LOR:
		return TV{SV{Or(ex.term(a.V, SBool), ex.term(b.V, SBool))}, types.Typ[types.Bool]}
	}
	// nil comparisons
	if isNilTV(a) || isNilTV(b) {
		other := b
		if isNilTV(b) {
			other = a
		}
		var eq Term
		switch o := other.V.(type) {
		case SV:
			switch o.T.Sort {
			case SIface:
				eq = Eq(app(SInt, "if.tag", o.T), IntLit(0))
			case SSlice:
				eq = Eq(app(SInt, "sl.arr", o.T), IntLit(0))
			default:
				eq = Eq(o.T, IntLit(0))
			}
		case IfaceV:
			eq = tFalse
		case FuncV:
			eq = tFalse
		default:
			return ex.evalErr("nil comparison of %T", other.V)
		}
		if x.Op == token.NEQ {
			eq = Not(eq)
		}
		return TV{SV{eq}, types.Typ[types.Bool]}
	}
	// arithmetic in contracts: '/' and '%' on ints are SMT div/mod (floor, for
	// positive divisors); on reals '/' is exact division.
	at, bt := sortOfVal(a.V), sortOfVal(b.V)
	if at == SInt && bt == SInt {
		p, q := ex.term(a.V, SInt), ex.term(b.V, SInt)
		switch x.Op {
		case token.QUO:
			return TV{SV{app(SInt, "div", p, q)}, a.T}
		case token.REM:
			return TV{SV{app(SInt, "mod", p, q)}, a.T}
		}
	}
	if (at == SReal && bt == SInt) || (at == SInt && bt == SReal) {
		a = TV{SV{ToReal(ex.term(a.V, ""))}, types.Typ[types.Float64]}
		b = TV{SV{ToReal(ex.term(b.V, ""))}, types.Typ[types.Float64]}
	}
	saved := ex.checkPanics
	ex.checkPanics = false
	r := ex.binop(env.fr, x.Op, a.V, b.V, nil, token.NoPos)
	ex.checkPanics = saved
	rt := a.T
	switch x.Op {
	case token.EQL, token.NEQ, token.LSS, token.LEQ, token.GTR, token.GEQ:
		rt = types.Typ[types.Bool]
	}
	return TV{r, rt}
}

func sortOfVal(v Val) Sort {
	if sv, ok := v.(SV); ok {
		return sv.T.Sort
	}
	if _, ok := v.(IfaceV); ok {
		return SIface
	}
	return ""
}

func isNilTV(t TV) bool {
	sv, ok := t.V.(SV)
	return ok && sv.T.Sort == "nil"
}

func (ex *Exec) evalCall(x *ast.CallExpr, env *Env) TV {
	fname := ""
	switch f := x.Fun.(type) {
	case *ast.Ident:
		fname = f.Name
	case *ast.SelectorExpr:
		if id, ok := f.X.(*ast.Ident); ok {
			fname = id.Name + "." + f.Sel.Name
		}
	}
	boolT := types.Typ[types.Bool]
	switch fname {
	case "old":
		if env.old == nil {
			return ex.eval(x.Args[0], env)
		}
		oe := env.child()
		oe.st = env.old
		for g, v := range env.old.ghost {
			oe.vars[g] = TV{v, nil}
		}
		for k, v := range env.oldVars {
			oe.vars[k] = v
		}
		return ex.eval(x.Args[0], oe)
	case "outer":
		// outer(e) in an invariant of an inner loop: e (ghosts, heap) at the head
		// of the current iteration of the enclosing loop
		if env.outer == nil {
			return ex.evalErr("outer(...) outside the invariant of a nested loop")
		}
		oe := env.child()
		oe.st = env.outer
		for g, v := range env.outer.ghost {
			oe.vars[g] = TV{v, nil}
		}
		return ex.eval(x.Args[0], oe)
	case "implies":
		a := ex.term(ex.eval(x.Args[0], env).V, SBool)
		b := ex.term(ex.eval(x.Args[1], env).V, SBool)
		return TV{SV{Implies(a, b)}, boolT}
	case "iff":
		a := ex.term(ex.eval(x.Args[0], env).V, SBool)
		b := ex.term(ex.eval(x.Args[1], env).V, SBool)
		return TV{SV{Eq(a, b)}, boolT}
	case "ite":
		c := ex.term(ex.eval(x.Args[0], env).V, SBool)
		a := ex.eval(x.Args[1], env)
		b := ex.eval(x.Args[2], env)
		if sortOfVal(a.V) == SReal && sortOfVal(b.V) == SInt {
			b = TV{SV{ToReal(ex.term(b.V, SInt))}, a.T}
		}
		if sortOfVal(a.V) == SInt && sortOfVal(b.V) == SReal {
			a = TV{SV{ToReal(ex.term(a.V, SInt))}, b.T}
		}
		return TV{ex.mergeVal(c, a.V, b.V), a.T}
	case "forall", "exists", "forallr", "existsr", "foralls", "existss":
		return ex.evalQuant(fname, x, env)
	case "len":
		a := ex.eval(x.Args[0], env)
		switch v := a.V.(type) {
		case SV:
			switch v.T.Sort {
			case SStr:
				return TV{SV{app(SInt, "str.len_", v.T)}, types.Typ[types.Int]}
			case SSlice:
				return TV{SV{app(SInt, "sl.len", v.T)}, types.Typ[types.Int]}
			}
		case CellSlice:
			return TV{SV{IntLit(int64(v.Hi - v.Lo))}, types.Typ[types.Int]}
		case ArrV:
			return TV{SV{IntLit(int64(len(v.Elems)))}, types.Typ[types.Int]}
		}
		return ex.evalErr("len of %T", a.V)
	case "counttrue":
		// counttrue(s): the number of true elements of a []bool
		a := ex.eval(x.Args[0], env)
		if sv, ok := a.V.(SV); ok && sv.T.Sort == SSlice {
			E := ex.heapRead(env.st, elemKey(types.Typ[types.Bool]), ArraySort(SInt, ArraySort(SInt, SBool)))
			off := app(SInt, "sl.off", sv.T)
			return TV{SV{app(SInt, "cnt.bool", Select(E, app(SInt, "sl.arr", sv.T)), off, app(SInt, "+", off, app(SInt, "sl.len", sv.T)))}, types.Typ[types.Int]}
		}
		return ex.evalErr("counttrue of %T", a.V)
	case "cap":
		a := ex.eval(x.Args[0], env)
		return TV{SV{app(SInt, "sl.cap", ex.term(a.V, SSlice))}, types.Typ[types.Int]}
	case "arr":
		a := ex.eval(x.Args[0], env)
		return TV{SV{app(SInt, "sl.arr", ex.term(a.V, SSlice))}, nil}
	case "div", "mod":
		a := ex.term(ex.eval(x.Args[0], env).V, SInt)
		b := ex.term(ex.eval(x.Args[1], env).V, SInt)
		return TV{SV{app(SInt, fname, a, b)}, types.Typ[types.Int]}
	case "abs":
		a := ex.term(ex.eval(x.Args[0], env).V, "")
		z := zeroTerm(a.Sort)
		return TV{SV{Ite(app(SBool, ">=", a, z), a, app(a.Sort, "-", a))}, nil}
	case "real":
		a := ex.term(ex.eval(x.Args[0], env).V, "")
		return TV{SV{ToReal(a)}, types.Typ[types.Float64]}
	case "floor":
		a := ex.term(ex.eval(x.Args[0], env).V, SReal)
		return TV{SV{app(SInt, "to_int", a)}, types.Typ[types.Int]}
	case "tag":
		a := ex.term(ex.eval(x.Args[0], env).V, SIface)
		return TV{SV{app(SInt, "if.tag", a)}, nil}
	case "data":
		a := ex.term(ex.eval(x.Args[0], env).V, SIface)
		return TV{SV{app(SInt, "if.data", a)}, nil}
	case "isnil":
		a := ex.eval(x.Args[0], env)
		return ex.evalBinary(&ast.BinaryExpr{X: x.Args[0], Op: token.EQL, Y: ast.NewIdent("nil")}, env.withTV(a))
	case "typeis":
		// typeis(x, "*gedcom.FamilyNode")
		a := ex.term(ex.eval(x.Args[0], env).V, SIface)
		lit, ok := x.Args[1].(*ast.BasicLit)
		if !ok {
			return ex.evalErr("typeis needs a string literal")
		}
		name, _ := strconv.Unquote(lit.Value)
		t := ex.typeByName(name)
		if t == nil {
			return ex.evalErr("unknown type %s", name)
		}
		return TV{SV{Eq(app(SInt, "if.tag", a), IntLit(int64(ex.typeTag(t))))}, boolT}
	case "fresh":
		a := ex.term(ex.eval(x.Args[0], env).V, SInt)
		al := env.st.alloc
		if env.old != nil {
			al = env.old.alloc
		}
		return TV{SV{app(SBool, ">=", a, al)}, boolT}
	case "heap":
		// heap("H.gedcom.SimpleNode.children", ref): raw array read
		lit, ok := x.Args[0].(*ast.BasicLit)
		if !ok {
			return ex.evalErr("heap needs a literal key")
		}
		key, _ := strconv.Unquote(lit.Value)
		srt, ok := ex.heapSortOf(env.st, key)
		if !ok {
			return ex.evalErr("heap array %s unknown", key)
		}
		arr := ex.heapRead(env.st, key, srt)
		if len(x.Args) == 1 {
			return TV{SV{arr}, nil}
		}
		r := ex.term(ex.eval(x.Args[1], env).V, SInt)
		return TV{SV{Select(arr, r)}, nil}
	}
	// spec / ghost functions
	if sf, ok := ex.cs.Specs[fname]; ok {
		if len(x.Args) != len(sf.Params) {
			return ex.evalErr("spec func %s: %d args, want %d", fname, len(x.Args), len(sf.Params))
		}
		var args []Term
		for i, a := range x.Args {
			want := specSort(sf.Params[i].Type)
			v := ex.eval(a, env)
			t := ex.term(v.V, "")
			if want == SReal && t.Sort == SInt {
				t = ToReal(t)
			}
			if t.Sort != want {
				return ex.evalErr("spec func %s arg %d: sort %s, want %s", fname, i, t.Sort, want)
			}
			args = append(args, t)
		}
		if sf.Body == nil {
			var as []Sort
			for _, p := range sf.Params {
				as = append(as, specSort(p.Type))
			}
			ex.declareGhostFun(sf, as)
			if len(args) == 0 {
				return TV{SV{T(specSort(sf.Result), smtIdent("sf."+sf.Name))}, nil}
			}
			return TV{SV{app(specSort(sf.Result), smtIdent("sf."+sf.Name), args...)}, nil}
		}
		if env.depth > 40 {
			return ex.evalErr("spec func recursion too deep in %s", fname)
		}
		ce := &Env{ex: ex, fr: env.fr, vars: map[string]TV{}, st: env.st, old: env.old, bound: map[string]Term{}, depth: env.depth + 1}
		for i, p := range sf.Params {
			// name large arguments to avoid blow-up
			at := args[i]
			if len(at.S) > 40 && len(env.bound) == 0 {
				at = ex.sc.Name("a."+p.Name, at)
			}
			ce.vars[p.Name] = TV{SV{at}, nil}
		}
		r := ex.eval(sf.Body.Expr, ce)
		t := ex.term(r.V, "")
		want := specSort(sf.Result)
		if want == SReal && t.Sort == SInt {
			t = ToReal(t)
		}
		return TV{SV{t}, nil}
	}
	return ex.evalErr("unknown function %s", fname)
}

func (e *Env) withTV(TV) *Env { return e }

func (ex *Exec) declareGhostFun(sf *SpecFunc, as []Sort) {
	name := smtIdent("sf." + sf.Name)
	if ex.sc.declared[name] {
		return
	}
	// ghost functions are global: declare in the prelude so that every query sees them
	ex.sc.declared[name] = true
	var ss []string
	for _, a := range as {
		ss = append(ss, string(a))
	}
	if len(as) == 0 {
		ex.sc.Prelude = append(ex.sc.Prelude, fmt.Sprintf("(declare-const %s %s)", name, specSort(sf.Result)))
	} else {
		ex.sc.Prelude = append(ex.sc.Prelude, fmt.Sprintf("(declare-fun %s (%s) %s)", name, strings.Join(ss, " "), specSort(sf.Result)))
	}
}

func (ex *Exec) heapSortOf(st *State, key string) (Sort, bool) {
	if t, ok := st.heap[key]; ok {
		return t.Sort, true
	}
	if t, ok := ex.heapInits[key]; ok {
		return t.Sort, true
	}
	return "", false
}

func (ex *Exec) typeByName(name string) types.Type {
	ptr := false
	if strings.HasPrefix(name, "*") {
		ptr = true
		name = name[1:]
	}
	pkgName, tname := "", name
	if i := strings.LastIndex(name, "."); i >= 0 {
		pkgName, tname = name[:i], name[i+1:]
	}
	for _, p := range ex.ld.Pkgs {
		if pkgName != "" && p.Types.Name() != pkgName {
			continue
		}
		if obj, ok := p.Types.Scope().Lookup(tname).(*types.TypeName); ok {
			if ptr {
				return types.NewPointer(obj.Type())
			}
			return obj.Type()
		}
	}
	return nil
}

func (ex *Exec) evalQuant(kind string, x *ast.CallExpr, env *Env) TV {
	// forall(i, body) | forall(i, lo, hi, body)   (ints)
	// forallr(x, body) (reals), foralls(s, body) (strings)
	id, ok := x.Args[0].(*ast.Ident)
	if !ok {
		return ex.evalErr("quantifier variable must be an identifier")
	}
	srt := SInt
	switch kind {
	case "forallr", "existsr":
		srt = SReal
	case "foralls", "existss":
		srt = SStr
	}
	if len(x.Args) == 4 && srt == SInt {
		// literal bounds spanning a few values (a variadic argument list of
		// known length): expand into a conjunction / disjunction. Only
		// syntactic literals are looked at, so that nothing is evaluated twice.
		litOf := func(e ast.Expr) (int, bool) {
			if bl, ok := e.(*ast.BasicLit); ok && bl.Kind == token.INT {
				n, err := strconv.Atoi(bl.Value)
				return n, err == nil
			}
			if c, ok := e.(*ast.CallExpr); ok && len(c.Args) == 1 {
				if f, ok := c.Fun.(*ast.Ident); ok && f.Name == "len" {
					if an, ok := c.Args[0].(*ast.Ident); ok {
						if tv, ok := env.vars[an.Name]; ok {
							if cs, ok := tv.V.(CellSlice); ok {
								return cs.Hi - cs.Lo, true
							}
						}
					}
				}
			}
			return 0, false
		}
		l, ok1 := litOf(x.Args[1])
		h, ok2 := 0, false
		if ok1 {
			h, ok2 = litOf(x.Args[2])
		}
		if ok1 && ok2 && h-l <= 6 {
			isAll := strings.HasPrefix(kind, "forall")
			var parts []Term
			for k := l; k < h; k++ {
				ce := env.child()
				ce.bound[id.Name] = IntLit(int64(k))
				delete(ce.vars, id.Name)
				parts = append(parts, ex.term(ex.eval(x.Args[3], ce).V, SBool))
			}
			if isAll {
				return TV{SV{And(parts...)}, types.Typ[types.Bool]}
			}
			return TV{SV{Or(parts...)}, types.Typ[types.Bool]}
		}
	}
	ex.sc.nfresh++
	ex.sc.inQuant++
	defer func() { ex.sc.inQuant-- }()
	qn := fmt.Sprintf("%s!q%d", id.Name, ex.sc.nfresh)
	ce := env.child()
	ce.bound[id.Name] = T(srt, qn)
	delete(ce.vars, id.Name)
	var body Term
	isAll := strings.HasPrefix(kind, "forall")
	if len(x.Args) == 4 {
		lo := ex.term(ex.eval(x.Args[1], env).V, SInt)
		hi := ex.term(ex.eval(x.Args[2], env).V, SInt)
		b := ex.term(ex.eval(x.Args[3], ce).V, SBool)
		rng := And(app(SBool, "<=", lo, T(srt, qn)), app(SBool, "<", T(srt, qn), hi))
		if isAll {
			body = Implies(rng, b)
		} else {
			body = And(rng, b)
		}
	} else if len(x.Args) == 2 {
		body = ex.term(ex.eval(x.Args[1], ce).V, SBool)
	} else {
		return ex.evalErr("quantifier arity")
	}
	q := "forall"
	if !isAll {
		q = "exists"
	}
	return TV{SV{T(SBool, fmt.Sprintf("(%s ((%s %s)) %s)", q, qn, srt, body.S))}, types.Typ[types.Bool]}
}

// skolemEval turns leading universal quantifiers of a lemma into declared
// constants (the negated query then yields a model for them). It returns the
// environment with those constants bound (for known-finding carve-outs).
func (ex *Exec) skolemEval(e ast.Expr, env *Env) (Term, *Env) {
	if p, ok := e.(*ast.ParenExpr); ok {
		return ex.skolemEval(p.X, env)
	}
	if c, ok := e.(*ast.CallExpr); ok {
		if id, ok := c.Fun.(*ast.Ident); ok && (id.Name == "forall" || id.Name == "forallr" || id.Name == "foralls") && (len(c.Args) == 2 || len(c.Args) == 4) {
			v, ok := c.Args[0].(*ast.Ident)
			if ok {
				srt := SInt
				if id.Name == "forallr" {
					srt = SReal
				} else if id.Name == "foralls" {
					srt = SStr
				}
				k := ex.sc.Declare(smtIdent("lv."+v.Name), srt)
				ex.inputs = append(ex.inputs, k.S)
				ce := env.child()
				ce.vars[v.Name] = TV{SV{k}, nil}
				if len(c.Args) == 4 {
					lo := ex.term(ex.eval(c.Args[1], env).V, SInt)
					hi := ex.term(ex.eval(c.Args[2], env).V, SInt)
					t, fe := ex.skolemEval(c.Args[3], ce)
					return Implies(And(app(SBool, "<=", lo, k), app(SBool, "<", k, hi)), t), fe
				}
				return ex.skolemEval(c.Args[1], ce)
			}
		}
		if id, ok := c.Fun.(*ast.Ident); ok && id.Name == "implies" && len(c.Args) == 2 {
			a := ex.term(ex.eval(c.Args[0], env).V, SBool)
			t, fe := ex.skolemEval(c.Args[1], env)
			return Implies(a, t), fe
		}
	}
	return ex.term(ex.eval(e, env).V, SBool), env
}

// LitMapV is an init-only package-level map with literal content.
type LitMapV struct{ gi *globalInit }

func (LitMapV) isVal() {}

func (ex *Exec) literalGlobal(fr *Frame, name string) *globalInit {
	if fr == nil || fr.fn == nil {
		return nil
	}
	f := fr.fn
	for f != nil && f.Pkg == nil {
		f = f.Parent()
	}
	if f == nil {
		return nil
	}
	g, ok := f.Pkg.Members[name].(*ssa.Global)
	if !ok {
		return nil
	}
	ex.analyseGlobals()
	gi := ex.initOnly[g]
	if gi == nil || !gi.ok || !gi.isMap {
		return nil
	}
	ex.assumedUsed["init-only:"+g.Name()+" (checked: no store/update/delete outside init)"] = true
	return gi
}

// pkgGlobal finds a package-level variable of the frame's package.
func (ex *Exec) pkgGlobal(fr *Frame, name string) *ssa.Global {
	if fr == nil || fr.fn == nil {
		return nil
	}
	f := fr.fn
	for f != nil && f.Pkg == nil {
		f = f.Parent()
	}
	if f == nil {
		return nil
	}
	g, _ := f.Pkg.Members[name].(*ssa.Global)
	return g
}
