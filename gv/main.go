package main

import (
	"runtime/pprof"
	"strconv"
	"flag"
	"fmt"
	"os"
	"sort"
	"strings"
	"sync"
	"time"

	"golang.org/x/tools/go/ssa"
)

var debugFA *FrameAnalysis

func verifDir() string {
	if d := os.Getenv("GV_VERIF"); d != "" {
		return d
	}
	return "/verif"
}

func loadAll() (*Loaded, *ContractSet, error) {
	ld, err := LoadRepo()
	if err != nil {
		return nil, nil, err
	}
	cs := NewContractSet()
	if err := cs.LoadDir(ld.Dir); err != nil {
		return nil, nil, err
	}
	if err := cs.LoadDir(verifDir() + "/contracts"); err != nil {
		return nil, nil, err
	}
	cs.applySweeps()
	if len(cs.LoadErrors) > 0 {
		return nil, nil, fmt.Errorf("%s", strings.Join(cs.LoadErrors, "; "))
	}
	return ld, cs, nil
}

func main() {
	if len(os.Args) < 2 {
		fmt.Fprintln(os.Stderr, "usage: gv check|dump|vc|replay|list ...")
		os.Exit(2)
	}
	defer cleanupScratch()
	if pf := os.Getenv("GV_CPUPROFILE"); pf != "" {
		f, _ := os.Create(pf)
		pprof.StartCPUProfile(f)
		defer pprof.StopCPUProfile()
		if ms := os.Getenv("GV_MAXSEC"); ms != "" {
			n, _ := strconv.Atoi(ms)
			go func() {
				time.Sleep(time.Duration(n) * time.Second)
				pprof.StopCPUProfile()
				if debugFA != nil {
					var big *Summary
					for _, s := range debugFA.sums {
						if big == nil || len(s.Links) > len(big.Links) {
							big = s
						}
					}
					if big != nil {
						fmt.Println("BIGGEST", funcKey(big.Fn), "links", len(big.Links), "writes", len(big.Writes))
						hist := map[string]int{}
						for k := range big.Links {
							hist[k.Field]++
						}
						for f, n := range hist {
							if n > 20 {
								fmt.Println("  field", f, n)
							}
						}
						i := 0
						for k, c := range big.Links {
							if i < 25 && k.Field == "Document.families" {
								fmt.Println("   ", k.Field, objName(big.Fn, k.Obj), "<-", c.String())
								i++
							}
						}
					}
				}
				os.Exit(3)
			}()
		}
	}
	switch os.Args[1] {
	case "dump":
		ld, err := LoadRepo()
		if err != nil {
			fmt.Fprintln(os.Stderr, err)
			os.Exit(2)
		}
		for _, a := range os.Args[2:] {
			if fn, ok := ld.Funcs[a]; ok {
				fn.WriteTo(os.Stdout)
			} else {
				fmt.Println("no function", a)
			}
		}
	case "list":
		ld, err := LoadRepo()
		if err != nil {
			fmt.Fprintln(os.Stderr, err)
			os.Exit(2)
		}
		var ks []string
		for k := range ld.Funcs {
			ks = append(ks, k)
		}
		sort.Strings(ks)
		for _, k := range ks {
			if len(os.Args) < 3 || strings.Contains(k, os.Args[2]) {
				fmt.Println(k)
			}
		}
	case "frame":
		ld, err := LoadRepo()
		if err != nil {
			fmt.Fprintln(os.Stderr, err)
			os.Exit(2)
		}
		fa := NewFrameAnalysis(ld)
		debugFA = fa
		for _, a := range os.Args[2:] {
			fn := ld.Funcs[a]
			if fn == nil {
				fmt.Println("no function", a)
				continue
			}
			sum := fa.Summarise(fn, nil)
			fmt.Println("==", a, "ret", sum.Ret.String())
			var lines []string
			for k, w := range sum.Writes {
				lines = append(lines, fmt.Sprintf("  write %-40s %-30s %s", k.Field, objName(fn, k.Obj), strings.Join(w.Chain, " > ")))
			}
			for k, c := range sum.Links {
				lines = append(lines, fmt.Sprintf("  link  %-40s %s <- %s", k.Field, objName(fn, k.Obj), c.String()))
			}
			for site, mm := range sum.SiteContent {
				for f, c := range mm {
					lines = append(lines, fmt.Sprintf("  site %s@%s .%-30s %s", site.Name(), ld.posString(site.Pos()), f, c.String()))
				}
			}
			for k, w := range sum.Unknowns {
				lines = append(lines, "  unknown "+k+" via "+strings.Join(w.Chain, " > "))
			}
			sort.Strings(lines)
			for _, l := range lines {
				fmt.Println(l)
			}
			if os.Getenv("GV_FRAME_ALL") != "" {
				for k, s2 := range fa.sums {
					if !strings.Contains(funcKey(k.fn), os.Getenv("GV_FRAME_ALL")) {
						continue
					}
					fmt.Println("--", funcKey(k.fn), "ctx", k.ctx, "ret", s2.Ret.String())
					var ls []string
					for site, mm := range s2.SiteContent {
						for f, c := range mm {
							ls = append(ls, fmt.Sprintf("     site %s@%s .%-30s %s", site.Name(), ld.posString(site.Pos()), f, c.String()))
						}
					}
					for lk, c := range s2.Links {
						ls = append(ls, fmt.Sprintf("     link %-30s %s <- %s", lk.Field, objName(k.fn, lk.Obj), c.String()))
					}
					sort.Strings(ls)
					for _, l := range ls {
						fmt.Println(l)
					}
				}
			}
		}
	case "vc":
		cmdVC(os.Args[2:])
	case "check":
		code := cmdCheck(os.Args[2:])
		cleanupScratch()
		pprof.StopCPUProfile()
		os.Exit(code)
	case "rxp":
		// gv rxp PATTERN LANGUAGE : run the regex-capture decider on literals
		if len(os.Args) < 4 {
			fmt.Fprintln(os.Stderr, "usage: gv rxp PATTERN LANGUAGE")
			os.Exit(2)
		}
		r := decideRxp(os.Args[2], os.Args[3])
		fmt.Printf("ok=%v states=%d classes=%d err=%q\nword=%q\nreason=%s\nexpected=%q\n", r.OK, r.States, r.Classes, r.Err, r.Word, r.Reason, r.Expected)
		os.Exit(0)
	case "replay":
		code := cmdReplay(os.Args[2:])
		cleanupScratch()
		os.Exit(code)
	case "selftest":
		code := cmdSelftest(os.Args[2:])
		cleanupScratch()
		os.Exit(code)
	default:
		fmt.Fprintln(os.Stderr, "unknown command", os.Args[1])
		os.Exit(2)
	}
}

// cmdVC: debugging aid — verify one function and print every obligation.
func cmdVC(args []string) {
	fs := flag.NewFlagSet("vc", flag.ExitOnError)
	showSMT := fs.String("smt", "", "print the query of the obligation whose name contains this")
	timeout := fs.Duration("timeout", 10*time.Second, "solver timeout")
	fs.Parse(args)
	debugPanics = os.Getenv("GV_DEBUG") != ""
	ld, cs, err := loadAll()
	if err != nil {
		fmt.Fprintln(os.Stderr, err)
		os.Exit(2)
	}
	if err := loadKnown(); err != nil {
		fmt.Fprintln(os.Stderr, err)
		os.Exit(2)
	}
	for _, key := range fs.Args() {
		var res *FuncResult
		if strings.HasPrefix(key, "lemma.") {
			for _, lm := range cs.Lemmas {
				if "lemma."+lm.Name == key {
					res = VerifyLemma(ld, cs, lm)
				}
			}
			if res == nil {
				fmt.Println("no lemma", key)
				continue
			}
		} else {
			fn := ld.Funcs[key]
			ct := cs.Funcs[key]
			if fn == nil || ct == nil {
				fmt.Printf("%s: function=%v contract=%v\n", key, fn != nil, ct != nil)
				continue
			}
			res = VerifyFunction(ld, cs, fn, ct)
		}
		if res.Err != "" {
			fmt.Println("ERROR:", res.Err)
		}
		solveAll([]*FuncResult{res}, SolveOpts{Timeout: *timeout})
		for _, o := range append(res.Obligations, res.Covers...) {
			fmt.Printf("%-8s %-7s %6.2fs  %s  [%s]\n", o.Status, o.Backend, o.Secs, o.Name, o.Pos2)
			if o.Status != "proved" && !o.Cover {
				if len(o.Model) > 0 {
					var ks []string
					for k := range o.Model {
						ks = append(ks, k)
					}
					sort.Strings(ks)
					for _, k := range ks {
						fmt.Printf("      %s = %s\n", k, o.Model[k])
					}
				} else if o.Output != "" {
					fmt.Printf("      %s\n", firstLines(o.Output, 3))
				}
			}
			if *showSMT != "" && strings.Contains(o.Name, *showSMT) {
				fmt.Println(res.Script.Query(o))
			}
		}
		for _, u := range res.Unsupported {
			fmt.Println("  unsupported:", u)
		}
		for _, u := range res.Havocs {
			fmt.Println("  havoc:", u)
		}
		for _, u := range res.Assumed {
			fmt.Println("  assumed:", u)
		}
		for _, u := range res.Inlined {
			fmt.Println("  inlined:", u)
		}
	}
}

// solveAll discharges every obligation of every result in parallel.
func solveAll(results []*FuncResult, opts SolveOpts) {
	var wg sync.WaitGroup
	for _, r := range results {
		for _, o := range append(append([]*Obligation{}, r.Obligations...), r.Covers...) {
			wg.Add(1)
			go func(r *FuncResult, o *Obligation) {
				defer wg.Done()
				q := r.Script.Query(o)
				best, _ := Solve(o.Name, q, opts)
				o.Backend = best.Solver
				o.Secs = best.Secs
				o.Output = best.Output
				switch best.Status {
				case "unsat":
					if o.Cover {
						o.Status = "vacuous"
					} else {
						o.Status = "proved"
					}
				case "sat":
					if o.Cover {
						o.Status = "proved"
					} else {
						o.Status = "refuted"
						o.Model = best.Model
					}
				case "error":
					o.Status = "error"
				default:
					o.Status = "unknown"
				}
			}(r, o)
		}
	}
	wg.Wait()
}

// huntModel: for an undecided obligation, look for a counterexample in small
// scopes (bounds on the integer inputs). Any model found is a real model of
// the unbounded query; finding none proves nothing.
func huntModel(r *FuncResult, o *Obligation) bool {
	if o.Cover || len(o.Inputs) == 0 {
		return false
	}
	q := r.Script.Query(o)
	idx := strings.LastIndex(q, "(check-sat)")
	if idx < 0 {
		return false
	}
	head, tail := q[:idx], q[idx:]
	type res struct {
		r SolverResult
	}
	bounds := []int64{40, 2100, 10000}
	ch := make(chan SolverResult, len(bounds))
	for _, b := range bounds {
		go func(b int64) {
			var sb strings.Builder
			sb.WriteString(head)
			for _, in := range o.Inputs {
				if strings.Contains(head, "(declare-const "+in+" Int)") {
					fmt.Fprintf(&sb, "(assert (and (>= %s (- %d)) (<= %s %d)))\n", in, b, in, b)
				}
			}
			sb.WriteString(tail)
			best, _ := Solve(o.Name+"-hunt", sb.String(), SolveOpts{Timeout: 15 * time.Second})
			ch <- best
		}(b)
	}
	found := false
	for range bounds {
		b := <-ch
		if b.Status == "sat" && !found {
			found = true
			o.Status = "refuted"
			o.Model = b.Model
			o.Backend = b.Solver + "/small-scope"
			o.Secs += b.Secs
			o.Output = b.Output
		}
	}
	return found
}

var _ = ssa.NewProgram

// outDir is where evidence and replay files go: /verif, or $GV_OUT for
// self-test runs against scratch copies (which must not touch /verif/evidence).
func outDir() string {
	if d := os.Getenv("GV_OUT"); d != "" {
		return d
	}
	return verifDir()
}
