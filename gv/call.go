package main

import (
	"os"
	"fmt"
	"go/ast"
	"go/constant"
	"go/token"
	"go/types"
	"sort"
	"strings"

	"golang.org/x/tools/go/ssa"
)

func ifaceMethodKey(c *ssa.CallCommon) string {
	t := c.Value.Type()
	name := "?"
	pkg := ""
	if n, ok := t.(*types.Named); ok {
		name = n.Obj().Name()
		if n.Obj().Pkg() != nil {
			pkg = n.Obj().Pkg().Name() + "."
		}
	}
	return pkg + name + "." + c.Method.Name()
}

// pureExternal: external functions assumed to have no effect on modelled
// memory (listed in evidence as an assumption).
func pureExternal(fn *ssa.Function) bool {
	var p string
	if fn.Pkg != nil {
		p = fn.Pkg.Pkg.Path()
	} else if fn.Object() != nil && fn.Object().Pkg() != nil {
		p = fn.Object().Pkg().Path()
	}
	switch p {
	case "strings", "strconv", "math", "time", "fmt", "errors", "unicode", "unicode/utf8", "regexp", "html", "bytes", "sort", "path", "path/filepath", "reflect", "net/url":
		// fmt.Fprint* and bytes.Buffer methods write to their receiver/writer
		// (external memory we do not model); sort mutates its argument.
		n := fn.Name()
		if p == "sort" && !strings.HasPrefix(n, "Search") && !strings.HasSuffix(n, "AreSorted") && !strings.HasSuffix(n, "IsSorted") {
			return false
		}
		return true
	}
	return false
}

func (ex *Exec) lookupContract(key string, arg0 Val) *Contract {
	if sc := ex.cs.Scoped[key]; sc != nil && (currentProp == "" && os.Getenv("GV_PROP") == "" || hasProp(sc.OnlyProps, currentProp) || hasProp(sc.OnlyProps, os.Getenv("GV_PROP"))) {
		return sc
	}
	c := ex.cs.Funcs[key]
	if c == nil || c.Sweep {
		return nil
	}
	cands := append([]*Contract{c}, ex.cs.Formats[key]...)
	hasFmt := false
	for _, k := range cands {
		if k.HasFormat {
			hasFmt = true
		}
	}
	if !hasFmt {
		return c
	}
	if arg0 != nil {
		if sv, ok := arg0.(SV); ok {
			if lit, ok := ex.litValue(sv.T); ok {
				for _, k := range cands {
					if k.HasFormat && k.Format == lit {
						return k
					}
				}
			}
		}
	}
	for _, k := range cands {
		if !k.HasFormat {
			return k
		}
	}
	return nil
}

func (ex *Exec) call(fr *Frame, st *State, x ssa.CallInstruction) Val {
	c := x.Common()
	var resT types.Type
	if v := x.Value(); v != nil {
		resT = v.Type()
	}
	var args []Val
	for _, a := range c.Args {
		args = append(args, ex.get(fr, a))
	}
	if c.IsInvoke() {
		recv := ex.get(fr, c.Value)
		key := ifaceMethodKey(c)
		all := append([]Val{recv}, args...)
		ptypes := []types.Type{c.Value.Type()}
		if sig, ok := c.Method.Type().(*types.Signature); ok {
			for i := 0; i < sig.Params().Len(); i++ {
				ptypes = append(ptypes, sig.Params().At(i).Type())
			}
		}
		ex.fireOnCallTyped(fr, st, key, all, ptypes, nil, x, resT, true)
		ex.inInvoke++
		res := ex.invoke(fr, st, c, recv, args, resT, x)
		ex.inInvoke--
		ex.fireOnCallTyped(fr, st, key, all, ptypes, res, x, resT, false)
		return res
	}
	switch v := c.Value.(type) {
	case *ssa.Builtin:
		return ex.builtin(fr, st, v.Name(), c, args, resT, x)
	case *ssa.Function:
		return ex.callStatic(fr, st, v, nil, args, resT, x)
	case *ssa.MakeClosure:
		fv := ex.get(fr, v).(FuncV)
		return ex.callStatic(fr, st, fv.Fn, fv.Free, args, resT, x)
	}
	if fv, ok := ex.get(fr, c.Value).(FuncV); ok {
		return ex.callStatic(fr, st, fv.Fn, fv.Free, args, resT, x)
	}
	// a call of a function-typed parameter or captured variable: oncall rules
	// may name it as call:NAME (e.g. call:mergeFn)
	if name := dynCalleeName(c.Value); name != "" {
		key := "call:" + name
		var ptypes []types.Type
		if sig, ok := c.Value.Type().Underlying().(*types.Signature); ok {
			for i := 0; i < sig.Params().Len(); i++ {
				ptypes = append(ptypes, sig.Params().At(i).Type())
			}
		}
		ex.fireOnCallTyped(fr, st, key, args, ptypes, nil, x, resT, true)
		res := ex.havocCall(fr, st, "dynamic call in "+fr.label, resT, false)
		ex.fireOnCallTyped(fr, st, key, args, ptypes, res, x, resT, false)
		return res
	}
	return ex.havocCall(fr, st, "dynamic call in "+fr.label, resT, false)
}

func dynCalleeName(v ssa.Value) string {
	switch v := v.(type) {
	case *ssa.Parameter:
		return v.Name()
	case *ssa.FreeVar:
		return v.Name()
	case *ssa.UnOp:
		// a variable captured by reference is called through a load: (*fn)(w)
		if v.Op == token.MUL {
			if fv, ok := v.X.(*ssa.FreeVar); ok {
				return fv.Name()
			}
		}
	}
	return ""
}

func (ex *Exec) havocCall(fr *Frame, st *State, what string, resT types.Type, pure bool) Val {
	ex.havocCalls[what] = true
	if !pure {
		ex.havocAll(st, "call.go:113")
	}
	if resT == nil {
		return nil
	}
	return ex.freshVal(resT, "ret")
}

func (ex *Exec) invoke(fr *Frame, st *State, c *ssa.CallCommon, recv Val, args []Val, resT types.Type, x ssa.CallInstruction) Val {
	if ex.checkPanics {
		if sv, ok := recv.(SV); ok && sv.T.Sort == SIface {
			key := fr.label + "invoke" + sv.T.S
			if !ex.nilChecked[key] {
				ex.nilChecked[key] = true
				pos := fr.fn.Pos()
				if x != nil {
					pos = x.Pos()
				}
				txt := ex.ld.exprAt(pos, "call")
				ex.oblige(fr, "nil-invoke", txt, fr.blockPC, Not(Eq(app(SInt, "if.tag", sv.T), IntLit(0))), pos)
			}
		}
	}
	// statically known dynamic type
	if iv, ok := recv.(IfaceV); ok {
		ms := ex.ld.Prog.MethodSets.MethodSet(iv.Dyn)
		if sel := ms.Lookup(c.Method.Pkg(), c.Method.Name()); sel != nil {
			if fn := ex.ld.Prog.MethodValue(sel); fn != nil {
				return ex.callStatic(fr, st, fn, nil, append([]Val{iv.Payload}, args...), resT, x)
			}
		}
	}
	key := ifaceMethodKey(c)
	if ic, ok := ex.cs.IfaceContracts[key]; ok {
		names := []string{"recv"}
		sig := c.Method.Type().(*types.Signature)
		ptypes := []types.Type{c.Value.Type()}
		for i := 0; i < sig.Params().Len(); i++ {
			n := sig.Params().At(i).Name()
			if i < len(ic.Params) {
				n = ic.Params[i]
			}
			names = append(names, n)
			ptypes = append(ptypes, sig.Params().At(i).Type())
		}
		ex.assumedUsed["iface "+key] = true
		all := append([]Val{recv}, args...)
		return ex.applyContract(fr, st, ic, key, names, ptypes, all, resT, x)
	}
	// error.Error(), fmt.Stringer etc. on externals: pure
	if !isRepoType(c.Value.Type()) {
		return ex.havocCall(fr, st, "invoke "+key, resT, true)
	}
	return ex.havocCall(fr, st, "invoke "+key, resT, false)
}

func (ex *Exec) callStatic(fr *Frame, st *State, fn *ssa.Function, free []Val, args []Val, resT types.Type, x ssa.CallInstruction) Val {
	key := funcKey(fn)
	var a0 Val
	if len(args) > 0 {
		a0 = args[0]
	}
	ct := ex.lookupContract(key, a0)
	if ct != nil && !ct.Inline {
		names, ptypes := paramNames(fn, ct)
		if ct.Extern || ct.Trusted {
			ex.assumedUsed[key] = true
		}
		ex.fireOnCall(fr, st, key, args, nil, true, x, resT)
		res := ex.applyContract(fr, st, ct, key, names, ptypes, args, resT, x)
		ex.fireOnCall(fr, st, key, args, res, false, x, resT)
		return res
	}
	if ex.contract != nil && len(ex.contract.Opaque) > 0 {
		short := key
		if i := strings.Index(key, "."); i >= 0 {
			short = key[i+1:]
		}
		for _, pat := range ex.contract.Opaque {
			if oncallMatches(OnCall{Callee: pat}, key, short) {
				ex.assumedUsed[key+" (opaque here: result unconstrained, no visible effect)"] = true
				ex.fireOnCall(fr, st, key, args, nil, true, x, resT)
				res := ex.havocCall(fr, st, "opaque "+key, resT, true)
				ex.fireOnCall(fr, st, key, args, res, false, x, resT)
				return res
			}
		}
	}
	if inRepo(fn) && len(fn.Blocks) > 0 && fr.depth < ex.maxInline && !ex.onStack(fn) {
		ex.inlinedUsed[key] = true
		ex.fireOnCall(fr, st, key, args, nil, true, x, resT)
		res := ex.inline(fr, st, fn, free, args, resT)
		ex.fireOnCall(fr, st, key, args, res, false, x, resT)
		return res
	}
	if inRepo(fn) {
		return ex.havocCall(fr, st, "call "+key+" (no contract, not inlinable)", resT, false)
	}
	// synthetic wrappers/bound methods of externals and plain externals
	if pureExternal(fn) {
		ex.assumedUsed[key+" (pure, result unconstrained)"] = true
		return ex.havocCall(fr, st, "extern "+key, resT, true)
	}
	return ex.havocCall(fr, st, "extern "+key, resT, false)
}

func (ex *Exec) onStack(fn *ssa.Function) bool {
	for _, f := range ex.stack {
		if f == fn {
			return true
		}
	}
	return false
}

func paramNames(fn *ssa.Function, ct *Contract) ([]string, []types.Type) {
	var names []string
	var ts []types.Type
	for i, p := range fn.Params {
		n := p.Name()
		if ct != nil && ct.Extern && i < len(ct.Params) {
			n = ct.Params[i]
		}
		names = append(names, n)
		ts = append(ts, p.Type())
	}
	if len(fn.Params) == 0 && ct != nil {
		// external functions without bodies have no Params; use the signature
		sig := fn.Signature
		idx := 0
		if sig.Recv() != nil {
			n := "recv"
			if len(ct.Params) > 0 {
				n = ct.Params[0]
			}
			names = append(names, n)
			ts = append(ts, sig.Recv().Type())
			idx = 1
		}
		for i := 0; i < sig.Params().Len(); i++ {
			n := sig.Params().At(i).Name()
			if idx+i < len(ct.Params) {
				n = ct.Params[idx+i]
			}
			names = append(names, n)
			ts = append(ts, sig.Params().At(i).Type())
		}
	}
	return names, ts
}

// inline executes the callee's body in a fresh frame.
func (ex *Exec) inline(fr *Frame, st *State, fn *ssa.Function, free []Val, args []Val, resT types.Type) Val {
	nf := &Frame{fn: fn, regs: map[ssa.Value]Val{}, label: fr.label + "/" + shortKey(fn), depth: fr.depth + 1, params: map[string]Val{},
		ptypes: map[string]types.Type{}, debugVals: map[string]ssa.Value{}}
	for i, p := range fn.Params {
		if i < len(args) {
			nf.regs[p] = args[i]
			nf.params[p.Name()] = args[i]
			nf.ptypes[p.Name()] = p.Type()
		}
	}
	nf.entry = st.clone()
	for i, fv := range fn.FreeVars {
		if i < len(free) {
			nf.regs[fv] = free[i]
		}
	}
	ex.stack = append(ex.stack, fn)
	savedDefers := st.defers
	st.defers = nil
	ex.runBody(nf, st, fr.blockPC)
	ex.stack = ex.stack[:len(ex.stack)-1]
	// merge returns into the caller's state
	if len(nf.rets) == 0 {
		// callee never returns (always panics): the rest of the block is dead
		fr.dead = true
		st.defers = savedDefers
		if resT == nil {
			return nil
		}
		return ex.freshVal(resT, "noret")
	}
	var ins []incoming
	for _, r := range nf.rets {
		ins = append(ins, incoming{r.pc, r.st})
	}
	merged := ex.mergeStates(ins)
	*st = *merged
	st.defers = savedDefers
	// The caller continues only along paths on which the callee returned.
	var pcs []Term
	for _, r := range nf.rets {
		pcs = append(pcs, r.pc)
	}
	fr.blockPC = ex.sc.Name("pc.after."+smtIdent(fn.Name()), Or(pcs...))
	if resT == nil {
		return nil
	}
	// results
	var res Val
	for i := len(nf.rets) - 1; i >= 0; i-- {
		r := nf.rets[i]
		var v Val
		if len(r.vals) == 1 {
			v = r.vals[0]
		} else {
			v = TupleV{F: r.vals}
		}
		if res == nil {
			res = v
		} else {
			res = ex.mergeVal(r.pc, v, res)
		}
	}
	return ex.nameVal("ret."+fn.Name(), res)
}

func shortKey(fn *ssa.Function) string {
	k := funcKey(fn)
	if i := strings.Index(k, "."); i >= 0 {
		return k[i+1:]
	}
	return k
}

func (ex *Exec) runDefers(fr *Frame, st *State) {
	ds := st.defers
	st.defers = nil
	for i := len(ds) - 1; i >= 0; i-- {
		d := ds[i]
		fv, ok := d.fn.(FuncV)
		if !ok {
			ex.unsup("deferred dynamic call")
			ex.havocAll(st, "call.go:328")
			continue
		}
		if d.flag.S == "true" {
			ex.callStatic(fr, st, fv.Fn, fv.Free, d.args, nil, nil)
			continue
		}
		// conditional defer: run on a copy and merge
		alt := st.clone()
		savedPC := fr.blockPC
		fr.blockPC = And(savedPC, d.flag)
		ex.callStatic(fr, alt, fv.Fn, fv.Free, d.args, nil, nil)
		fr.blockPC = savedPC
		m := ex.mergeStates([]incoming{{d.flag, alt}, {Not(d.flag), st}})
		*st = *m
	}
}

// ---------------------------------------------------------------------------
// contracts at call sites

func (ex *Exec) applyContract(fr *Frame, st *State, ct *Contract, key string, names []string, ptypes []types.Type, args []Val, resT types.Type, x ssa.CallInstruction) Val {
	env := ex.newEnv(fr, st, nil)
	for i, n := range names {
		if i < len(args) {
			var t types.Type
			if i < len(ptypes) {
				t = ptypes[i]
			}
			env.vars[n] = TV{args[i], t}
			env.vars[n+"0"] = TV{args[i], t} // the callee's entry value of the parameter
			env.vars[fmt.Sprintf("arg%d", i)] = TV{args[i], t}
		}
	}
	// variadic ...interface{} arguments given as a cell slice: argsN
	if len(args) > 0 {
		if cs, ok := args[len(args)-1].(CellSlice); ok {
			cell := st.cells[cs.C]
			if av, ok := cell.(ArrV); ok {
				for i := cs.Lo; i < cs.Hi && i < len(av.Elems); i++ {
					v := av.Elems[i]
					var t types.Type
					if iv, ok := v.(IfaceV); ok {
						v = iv.Payload
						t = iv.Dyn
					}
					env.vars[fmt.Sprintf("va%d", i-cs.Lo)] = TV{v, t}
				}
				env.vars["nva"] = TV{SV{IntLit(int64(cs.Hi - cs.Lo))}, nil}
			}
		}
	}
	for _, l := range ct.Lets {
		env.vars[l.Label] = ex.eval(l.Expr, env)
	}
	var pos = fr.fn.Pos()
	if x != nil {
		pos = x.Pos()
	}
	for i, r := range ct.Requires {
		if ct.Extern && !ex.checkPanics {
			// the preconditions of external functions are their documented panic
			// conditions: obligations of safety contracts only
			continue
		}
		g := ex.evalBool(r, env)
		ex.oblige(fr, "pre", key+":"+clauseName(r, i), fr.blockPC, g, pos)
	}
	old := st.clone()
	if ct.AssignsSet {
		var ks []string
		all := false
		allocs := false
		for _, a := range ct.Assigns {
			switch a {
			case "nothing":
			case "everything":
				all = true
			case "alloc":
				allocs = true
			default:
				ks = append(ks, a)
			}
		}
		// row-restricted keys: evaluate the rows in the pre-state
		type rowKey struct {
			key  string
			rows []Term
			pre  Term
		}
		var rks []rowKey
		if !all {
			var rkNames []string
			for k := range ct.AssignRows {
				rkNames = append(rkNames, k)
			}
			sort.Strings(rkNames)
			for _, k := range rkNames {
				listed := false
				for _, a := range ks {
					if a == k {
						listed = true
					}
				}
				if listed {
					continue
				}
				rk := rowKey{key: k}
				for _, rc := range ct.AssignRows[k] {
					rk.rows = append(rk.rows, ex.term(ex.eval(rc.Expr, env).V, SInt))
				}
				rks = append(rks, rk)
				allocs = true
			}
		}
		allocPre := st.alloc
		if all {
			ex.havocAll(st, "call.go:407")
		} else if len(ks) > 0 || allocs {
			if ks == nil {
				ks = []string{} // only the allocation counter moves
			}
			for i := range rks {
				rks[i].pre = ex.heapReadAny(st, rks[i].key)
			}
			ex.havocHeap(st, ks)
			for _, rk := range rks {
				if rk.pre.S == "" {
					continue
				}
				nw := ex.sc.Fresh("hv."+rk.key, rk.pre.Sort)
				excl := ""
				for _, rt := range rk.rows {
					excl += fmt.Sprintf(" (not (= r!q %s))", rt.S)
				}
				ex.sc.Assert(T(SBool, fmt.Sprintf("(forall ((r!q Int)) (! (=> (and (< r!q %s)%s) (= (select %s r!q) (select %s r!q))) :pattern ((select %s r!q))))", allocPre.S, excl, nw.S, rk.pre.S, nw.S)))
				st.heap[rk.key] = nw
				ex.fieldInvAxiom(rk.key, nw, st.alloc)
			}
		}
	} else if !ct.Extern {
		ex.havocAll(st, "call to "+key+" (its contract has no assigns clause)")
	}
	var res Val
	if resT != nil {
		res = ex.freshVal(resT, "r."+smtIdent(key))
		penv := ex.newEnv(fr, st, old)
		for k, v := range env.vars {
			penv.vars[k] = v
		}
		ex.bindResult(penv, res, resT)
		ex.assumeEnsures(fr, ct, key, penv)
	} else {
		penv := ex.newEnv(fr, st, old)
		for k, v := range env.vars {
			penv.vars[k] = v
		}
		ex.assumeEnsures(fr, ct, key, penv)
	}
	return res
}

// assumeEnsures assumes the callee's postconditions at a call site. A clause
// that is a known finding (not proved for the inputs in its `when`) is only
// assumed outside the carve-out, so callers never rest on a refuted fact.
func (ex *Exec) assumeEnsures(fr *Frame, ct *Contract, key string, penv *Env) {
	for i, e := range ct.Ensures {
		if mentionsGhost(e.Expr, ct) {
			// a clause over the callee's own ghost variables says nothing to a caller
			continue
		}
		g := ex.evalBool(e, penv)
		if k := knownFor(key + "#ensures:" + clauseName(e, i)); k != nil {
			when := tTrue
			if k.whenExpr != nil {
				when = ex.term(ex.eval(k.whenExpr, penv).V, SBool)
			}
			g = Or(when, g)
		}
		ex.sc.Assert(Implies(fr.blockPC, g))
	}
}

func (ex *Exec) bindResult(env *Env, res Val, resT types.Type) {
	if tv, ok := res.(TupleV); ok {
		tt, _ := resT.(*types.Tuple)
		for i, f := range tv.F {
			var t types.Type
			if tt != nil && i < tt.Len() {
				t = tt.At(i).Type()
			}
			env.vars[fmt.Sprintf("result%d", i)] = TV{f, t}
		}
		if len(tv.F) > 0 {
			env.vars["result"] = env.vars["result0"]
		}
		return
	}
	env.vars["result"] = TV{res, resT}
	env.vars["result0"] = TV{res, resT}
}

// fireOnCall applies the ghost updates declared by `oncall` rules.
func (ex *Exec) fireOnCall(fr *Frame, st *State, key string, args []Val, res Val, before bool, x ssa.CallInstruction, resT types.Type) {
	if ex.inInvoke > 0 && fr.isTop {
		// an interface call dispatched statically: the invoke already fired
		return
	}
	var ptypes []types.Type
	if x != nil {
		if callee := x.Common().StaticCallee(); callee != nil {
			for _, p := range callee.Params {
				ptypes = append(ptypes, p.Type())
			}
		}
	}
	ex.fireOnCallTyped(fr, st, key, args, ptypes, res, x, resT, before)
}

// fireOnCallTyped: before the call, the checks that do not mention the result
// (arguments and state as the caller passed them); after it, the ghost
// updates, the assumptions and the checks on the result.
func (ex *Exec) fireOnCallTyped(fr *Frame, st *State, key string, args []Val, ptypes []types.Type, res Val, x ssa.CallInstruction, resT types.Type, before bool) {
	if ex.contract == nil {
		return
	}
	deepOnly := !fr.isTop
	if deepOnly && ex.topFrame == nil {
		return
	}
	short := key
	if i := strings.Index(key, "."); i >= 0 {
		short = key[i+1:]
	}
	for _, oc := range ex.contract.OnCalls {
		if !oncallMatches(oc, key, short) {
			continue
		}
		if deepOnly && !oc.Deep {
			continue
		}
		if oc.Ord != 0 && ex.callSiteOrd(fr.fn, x) != oc.Ord {
			continue
		}
		usesResult := func(c Clause) bool {
			found := false
			ast.Inspect(c.Expr, func(n ast.Node) bool {
				if id, ok := n.(*ast.Ident); ok && strings.HasPrefix(id.Name, "result") {
					found = true
				}
				return !found
			})
			return found
		}
		if before {
			hasEarly := false
			for _, ck := range oc.Checks {
				if !usesResult(ck) {
					hasEarly = true
				}
			}
			if !hasEarly {
				continue
			}
		}
		ex.callOrd[oc.Callee]++
		envFr := fr
		if deepOnly {
			envFr = ex.topFrame
		}
		env := ex.loopEnv(envFr, st)
		for i, a := range args {
			var t types.Type
			if i < len(ptypes) {
				t = ptypes[i]
			}
			env.vars[fmt.Sprintf("arg%d", i)] = TV{a, t}
			// the address of a struct field (receiver of a method of an embedded
			// value such as a sync.Map): argN_base is the object, argN_field the
			// field name
			if os.Getenv("GV_DEBUG_ONCALL") != "" {
				fmt.Fprintf(os.Stderr, "oncall %s arg%d %T %v\n", key, i, a, a)
			}
			if hp, ok := a.(HeapPtr); ok && len(hp.Path) > 0 {
				if _, name := typeAtPath(hp.Root, hp.Path); name != "" {
					env.vars[fmt.Sprintf("arg%d_base", i)] = TV{SV{hp.Base}, nil}
					env.vars[fmt.Sprintf("arg%d_field", i)] = TV{SV{ex.strLit(name)}, types.Typ[types.String]}
				}
			}
		}
		for g, v := range st.ghost {
			env.vars[g] = TV{v, nil}
		}
		for n, v := range fr.params {
			if _, shadow := env.vars[n]; !shadow && !strings.HasPrefix(n, "let.") {
				env.vars[n] = TV{v, fr.ptypes[n]}
			}
		}
		if res != nil {
			ex.bindResult(env, res, resT)
		}
		cond := tTrue
		if oc.When != nil {
			cond = ex.evalBool(*oc.When, env)
		}
		if before && oc.When != nil && usesResult(*oc.When) {
			continue
		}
		for i, ck := range oc.Checks {
			if usesResult(ck) == before {
				continue
			}
			g := Implies(cond, ex.evalBool(ck, env))
			ex.obligeEnv(fr, "oncall", short+":"+clauseName(ck, i), fr.blockPC, g, token.NoPos, env)
		}
		if before {
			continue
		}
		for _, as := range oc.Assumes {
			ex.sc.Assert(Implies(fr.blockPC, Implies(cond, ex.evalBool(as, env))))
			ex.assumedUsed["oncall "+short+" assume "+as.Src] = true
		}
		// simultaneous assignment
		nv := map[string]Val{}
		for _, a := range oc.Assigns {
			v := ex.eval(a.Expr.Expr, env).V
			if a.Expr.Index != nil {
				cur, ok := st.ghost[a.Name].(SV)
				if !ok {
					ex.unsup("indexed assignment to ghost " + a.Name + " that is not an array")
					continue
				}
				idx := ex.term(ex.eval(a.Expr.Index, env).V, "")
				_, es := arrayKV(cur.T.Sort)
				v = SV{Store(cur.T, idx, ex.term(v, es))}
			}
			if cur, ok := st.ghost[a.Name]; ok {
				v = ex.mergeVal(cond, v, cur)
			}
			nv[a.Name] = v
		}
		for k, v := range nv {
			st.ghost[k] = v
		}
	}
}

// ---------------------------------------------------------------------------
// builtins

func (ex *Exec) builtin(fr *Frame, st *State, name string, c *ssa.CallCommon, args []Val, resT types.Type, x ssa.CallInstruction) Val {
	switch name {
	case "len", "cap":
		switch a := args[0].(type) {
		case SV:
			switch a.T.Sort {
			case SStr:
				return SV{app(SInt, "str.len_", a.T)}
			case SSlice:
				if name == "len" {
					return SV{app(SInt, "sl.len", a.T)}
				}
				return SV{app(SInt, "sl.cap", a.T)}
			case SInt:
				// map or chan
				n := ex.sc.Fresh("len", SInt)
				ex.sc.Assert(app(SBool, ">=", n, IntLit(0)))
				if mt, ok := c.Args[0].Type().Underlying().(*types.Map); ok {
					// len(m) == 0 => no key present is not modelled; nil map has len 0
					_ = mt
					ex.sc.Assert(Implies(Eq(a.T, IntLit(0)), Eq(n, IntLit(0))))
				}
				return SV{n}
			}
		case CellSlice:
			return SV{IntLit(int64(a.Hi - a.Lo))}
		case ArrV:
			return SV{IntLit(int64(len(a.Elems)))}
		case CellPtr:
			if at, ok := a.C.Typ.Underlying().(*types.Array); ok {
				return SV{IntLit(at.Len())}
			}
		}
	case "append":
		return ex.appendBuiltin(fr, st, c, args, resT)
	case "copy":
		return ex.copyBuiltin(fr, st, c, args)
	case "delete":
		mt := c.Args[0].Type().Underlying().(*types.Map)
		ks, kok := scalarSort(mt.Key())
		if kok {
			m := ex.term(args[0], SInt)
			k := ex.term(args[1], ks)
			hasK := mapKey(mt) + ".has"
			hasA := ex.heapRead(st, hasK, ArraySort(SInt, ArraySort(ks, SBool)))
			ex.heapSet(st, hasK, Store(hasA, m, Store(Select(hasA, m), k, tFalse)))
			return nil
		}
	case "print", "println":
		return nil
	case "recover":
		return SV{zeroTerm(SIface)}
	case "min", "max":
		if len(args) == 2 {
			a, b := ex.term(args[0], ""), ex.term(args[1], "")
			op := "<="
			if name == "max" {
				op = ">="
			}
			return SV{Ite(app(SBool, op, a, b), a, b)}
		}
	case "ssa:wrapnilchk":
		return args[0]
	}
	ex.unsup("builtin " + name)
	if resT != nil {
		return ex.freshVal(resT, name)
	}
	return nil
}

func (ex *Exec) appendBuiltin(fr *Frame, st *State, c *ssa.CallCommon, args []Val, resT types.Type) Val {
	slT, ok := c.Args[0].Type().Underlying().(*types.Slice)
	if !ok {
		ex.unsup("append on non-slice")
		return ex.freshVal(resT, "append")
	}
	leaves, eok := elemLeaves(slT.Elem())
	if !eok {
		ex.unsup("append to slice of " + slT.Elem().String())
		ex.havocHeap(st, []string{})
		return ex.freshVal(resT, "append")
	}
	var allKeys []string
	for _, l := range leaves {
		allKeys = append(allKeys, elemLeafKey(slT.Elem(), l))
	}
	s := ex.term(args[0], SSlice)
	arr, off, ln, cp := app(SInt, "sl.arr", s), app(SInt, "sl.off", s), app(SInt, "sl.len", s), app(SInt, "sl.cap", s)

	var addLen Term
	var concrete []Val
	isConcrete := false
	var src Term
	switch a := args[1].(type) {
	case CellSlice:
		cell, _ := st.cells[a.C].(ArrV)
		for i := a.Lo; i < a.Hi && i < len(cell.Elems); i++ {
			concrete = append(concrete, cell.Elems[i])
		}
		isConcrete = true
		addLen = IntLit(int64(len(concrete)))
	case SV:
		if a.T.Sort == SStr {
			ex.unsup("append(bytes, string...)")
			ex.havocHeap(st, allKeys)
			return ex.freshVal(resT, "append")
		}
		src = a.T
		addLen = app(SInt, "sl.len", src)
	default:
		ex.unsup(fmt.Sprintf("append of %T", args[1]))
		ex.havocHeap(st, allKeys)
		return ex.freshVal(resT, "append")
	}
	newLen := ex.sc.Name("app.len", app(SInt, "+", ln, addLen))
	fits := ex.sc.Name("app.fits", And(app(SBool, "<=", newLen, cp), Not(Eq(arr, IntLit(0)))))
	nref := ex.newRef(st, "apparr")
	ex.sc.Assert(app(SBool, ">", nref, IntLit(0)))
	ncap := ex.sc.Fresh("app.cap", SInt)
	ex.sc.Assert(app(SBool, ">=", ncap, newLen))
	rarr := ex.sc.Name("app.arr", Ite(fits, arr, nref))
	roff := ex.sc.Name("app.off", Ite(fits, off, IntLit(0)))
	rcap := Ite(fits, cp, ncap)
	// appending nothing to a nil slice stays nil
	res := ex.sc.Name("app.res", app(SSlice, "mk-slice", rarr, roff, newLen, rcap))
	if !isConcrete {
		res = ex.sc.Name("app.res", Ite(And(Eq(arr, IntLit(0)), Eq(addLen, IntLit(0))), s, res))
	}
	i := "i!q"
	lo := app(SInt, "+", off, ln)
	hi := app(SInt, "+", off, newLen)
	for _, l := range leaves {
		key := elemLeafKey(slT.Elem(), l)
		EA := ArraySort(SInt, ArraySort(SInt, l.sort))
		E := ex.heapRead(st, key, EA)
		// new element store
		E2 := ex.sc.Fresh("E.app", EA)
		oldRow := Select(E, arr)
		newRow := Select(E2, rarr)
		// other backing arrays unchanged
		ex.sc.Assert(T(SBool, fmt.Sprintf("(forall ((a!q Int)) (! (=> (not (= a!q %s)) (= (select %s a!q) (select %s a!q))) :pattern ((select %s a!q))))", rarr.S, E2.S, E.S, E2.S)))
		// prefix copied / kept
		ex.sc.Assert(T(SBool, fmt.Sprintf("(forall ((%s Int)) (! (=> (and (<= 0 %s) (< %s %s)) (= (select %s (+ %s %s)) (select %s (+ %s %s)))) :pattern ((select %s (+ %s %s)))))",
			i, i, i, ln.S, newRow.S, roff.S, i, oldRow.S, off.S, i, newRow.S, roff.S, i)))
		// in place: everything outside [off+len, off+newLen) unchanged
		ex.sc.Assert(Implies(fits, T(SBool, fmt.Sprintf("(forall ((%s Int)) (! (=> (or (< %s %s) (>= %s %s)) (= (select %s %s) (select %s %s))) :pattern ((select %s %s))))",
			i, i, lo.S, i, hi.S, newRow.S, i, oldRow.S, i, newRow.S, i))))
		if isConcrete {
			for k, e := range concrete {
				lv := leafOf(e, l.path)
				var et Term
				if lv == nil {
					et = ex.sc.Fresh("app.elem", l.sort)
				} else {
					et = ex.term(lv, l.sort)
				}
				ex.sc.Assert(Eq(Select(newRow, app(SInt, "+", roff, app(SInt, "+", ln, IntLit(int64(k))))), et))
			}
		} else {
			srow := Select(E, app(SInt, "sl.arr", src))
			soff := app(SInt, "sl.off", src)
			ex.sc.Assert(T(SBool, fmt.Sprintf("(forall ((%s Int)) (! (=> (and (<= 0 %s) (< %s %s)) (= (select %s (+ %s (+ %s %s))) (select %s (+ %s %s)))) :pattern ((select %s (+ %s (+ %s %s))))))",
				i, i, i, addLen.S, newRow.S, roff.S, ln.S, i, srow.S, soff.S, i, newRow.S, roff.S, ln.S, i)))
		}
		st.heap[key] = E2
	}
	return SV{res}
}

func (ex *Exec) copyBuiltin(fr *Frame, st *State, c *ssa.CallCommon, args []Val) Val {
	slT, ok := c.Args[0].Type().Underlying().(*types.Slice)
	n := ex.sc.Fresh("copy.n", SInt)
	if !ok {
		return SV{n}
	}
	es, eok := scalarSort(slT.Elem())
	key := elemKey(slT.Elem())
	if !eok {
		ex.havocHeap(st, []string{key})
		return SV{n}
	}
	d := ex.term(args[0], SSlice)
	var sl, srcRow, soff Term
	EA := ArraySort(SInt, ArraySort(SInt, es))
	E := ex.heapRead(st, key, EA)
	if sv, ok := args[1].(SV); ok && sv.T.Sort == SSlice {
		sl = app(SInt, "sl.len", sv.T)
		srcRow = Select(E, app(SInt, "sl.arr", sv.T))
		soff = app(SInt, "sl.off", sv.T)
	} else {
		ex.unsup("copy from non-slice")
		ex.havocHeap(st, []string{key})
		return SV{n}
	}
	dl := app(SInt, "sl.len", d)
	ex.sc.Assert(Eq(n, Ite(app(SBool, "<=", dl, sl), dl, sl)))
	darr, doff := app(SInt, "sl.arr", d), app(SInt, "sl.off", d)
	E2 := ex.sc.Fresh("E.copy", EA)
	ex.sc.Assert(T(SBool, fmt.Sprintf("(forall ((a!q Int)) (! (=> (not (= a!q %s)) (= (select %s a!q) (select %s a!q))) :pattern ((select %s a!q))))", darr.S, E2.S, E.S, E2.S)))
	newRow := Select(E2, darr)
	oldRow := Select(E, darr)
	i := "i!q"
	ex.sc.Assert(T(SBool, fmt.Sprintf("(forall ((%s Int)) (! (=> (and (<= 0 %s) (< %s %s)) (= (select %s (+ %s %s)) (select %s (+ %s %s)))) :pattern ((select %s (+ %s %s)))))",
		i, i, i, n.S, newRow.S, doff.S, i, srcRow.S, soff.S, i, newRow.S, doff.S, i)))
	ex.sc.Assert(T(SBool, fmt.Sprintf("(forall ((%s Int)) (! (=> (or (< %s %s) (>= %s (+ %s %s))) (= (select %s %s) (select %s %s))) :pattern ((select %s %s))))",
		i, i, doff.S, i, doff.S, n.S, newRow.S, i, oldRow.S, i, newRow.S, i)))
	st.heap[key] = E2
	return SV{n}
}

// ---------------------------------------------------------------------------
// init-only globals with literal content

type globalInit struct {
	g       *ssa.Global
	keys    []constant.Value
	vals    []*ssa.Const
	scalar  *ssa.Const
	isMap   bool
	ok      bool
	why     string
}

func (ex *Exec) analyseGlobals() {
	if ex.initOnly != nil {
		return
	}
	ex.initOnly = map[*ssa.Global]*globalInit{}
	for _, p := range ex.ld.SPkgs {
		if p == nil || !strings.HasPrefix(p.Pkg.Path(), repoModule) {
			continue
		}
		initFn := p.Func("init")
		for _, m := range p.Members {
			g, ok := m.(*ssa.Global)
			if !ok {
				continue
			}
			gi := &globalInit{g: g, ok: true}
			ex.initOnly[g] = gi
			if g.Object() == nil {
				gi.ok = false
				continue
			}
			// writes outside init?
			for _, fn := range ex.ld.AllFns {
				if fn.Pkg != p && (fn.Parent() == nil || fn.Parent().Pkg != p) {
					// other packages cannot write unexported globals, exported ones may
					if !g.Object().Exported() {
						continue
					}
				}
				for _, b := range fn.Blocks {
					for _, in := range b.Instrs {
						switch x := in.(type) {
						case *ssa.Store:
							if x.Addr == g && fn != initFn {
								gi.ok = false
								gi.why = "stored in " + fn.String()
							}
						case *ssa.MapUpdate:
							if u, ok := x.Map.(*ssa.UnOp); ok && u.X == g && fn != initFn {
								gi.ok = false
								gi.why = "map updated in " + fn.String()
							}
						case *ssa.Call:
							// delete(global, k)
							if bi, ok := x.Call.Value.(*ssa.Builtin); ok && bi.Name() == "delete" {
								if u, ok := x.Call.Args[0].(*ssa.UnOp); ok && u.X == g {
									gi.ok = false
								}
							}
						}
					}
				}
			}
			if !gi.ok || initFn == nil {
				gi.ok = false
				continue
			}
			// find the literal in init
			found := false
			for _, b := range initFn.Blocks {
				for _, in := range b.Instrs {
					s, ok := in.(*ssa.Store)
					if !ok || s.Addr != g {
						continue
					}
					found = true
					switch v := s.Val.(type) {
					case *ssa.Const:
						gi.scalar = v
					case *ssa.MakeMap:
						gi.isMap = true
						for _, r := range *v.Referrers() {
							if mu, ok := r.(*ssa.MapUpdate); ok {
								kc, kok := mu.Key.(*ssa.Const)
								vc, vok := mu.Value.(*ssa.Const)
								if !kok || !vok {
									// converted constants (e.g. time.Month(x)) appear as Const too; anything else: give up
									gi.ok = false
									gi.why = "non-constant map literal entry"
									continue
								}
								gi.keys = append(gi.keys, kc.Value)
								gi.vals = append(gi.vals, vc)
							}
						}
					default:
						gi.ok = false
						gi.why = "initialiser is not a literal"
					}
				}
			}
			if !found {
				gi.ok = false
			}
		}
	}
}

func (ex *Exec) initOnlyMapOf(fr *Frame, v ssa.Value) *globalInit {
	u, ok := v.(*ssa.UnOp)
	if !ok {
		return nil
	}
	g, ok := u.X.(*ssa.Global)
	if !ok {
		return nil
	}
	ex.analyseGlobals()
	gi := ex.initOnly[g]
	if gi == nil || !gi.ok || !gi.isMap {
		return nil
	}
	ex.assumedUsed["init-only:"+g.Name()+" (checked: no store/update/delete outside init)"] = true
	return gi
}

func (ex *Exec) lookupLiteralMap(gi *globalInit, mt *types.Map, idx Val, commaOk bool) Val {
	ks, _ := scalarSort(mt.Key())
	vs, _ := scalarSort(mt.Elem())
	k := ex.term(idx, ks)
	val := zeroTerm(vs)
	has := tFalse
	for i := len(gi.keys) - 1; i >= 0; i-- {
		var kt Term
		switch ks {
		case SStr:
			kt = ex.strLit(constant.StringVal(gi.keys[i]))
		case SInt:
			kt = BigIntLit(constant.ToInt(gi.keys[i]).ExactString())
		default:
			continue
		}
		vt := ex.term(ex.constVal(gi.vals[i]), vs)
		c := Eq(k, kt)
		val = Ite(c, vt, val)
		has = Or(c, has)
	}
	v := ex.sc.Name("tbl."+gi.g.Name(), val)
	if commaOk {
		return TupleV{F: []Val{SV{v}, SV{has}}}
	}
	return SV{v}
}

// callSiteOrd: the 1-based ordinal of a static call among the calls to the
// same callee in fn, in source order (`oncall Callee#n`).
func (ex *Exec) callSiteOrd(fn *ssa.Function, x ssa.CallInstruction) int {
	if x == nil || fn == nil {
		return 0
	}
	callee := x.Common().StaticCallee()
	method := x.Common().Method
	if callee == nil && method == nil {
		return 0
	}
	type site struct {
		pos token.Pos
		in  ssa.CallInstruction
	}
	var sites []site
	for _, b := range fn.Blocks {
		for _, in := range b.Instrs {
			ci, ok := in.(ssa.CallInstruction)
			if !ok {
				continue
			}
			if callee != nil && ci.Common().StaticCallee() == callee || callee == nil && ci.Common().Method == method {
				sites = append(sites, site{ci.Pos(), ci})
			}
		}
	}
	sort.SliceStable(sites, func(i, j int) bool { return sites[i].pos < sites[j].pos })
	for i, s := range sites {
		if s.in == x {
			return i + 1
		}
	}
	return 0
}

// mentionsGhost: the expression names one of the contract's ghost variables.
func mentionsGhost(e ast.Expr, ct *Contract) bool {
	if len(ct.Ghosts) == 0 {
		return false
	}
	found := false
	ast.Inspect(e, func(n ast.Node) bool {
		if id, ok := n.(*ast.Ident); ok {
			for _, g := range ct.Ghosts {
				if g.Name == id.Name {
					found = true
				}
			}
		}
		return !found
	})
	return found
}

// oncallMatches: exact callee (with or without the package), or a wildcard
// `Type.*` over the methods of a type, minus the excepted names.
func oncallMatches(oc OnCall, key, short string) bool {
	if oc.Callee == key || oc.Callee == short {
		return true
	}
	if strings.HasSuffix(oc.Callee, ".*") {
		pre := strings.TrimSuffix(oc.Callee, "*")
		var m string
		switch {
		case strings.HasPrefix(short, pre):
			m = short[len(pre):]
		case strings.HasPrefix(key, pre):
			m = key[len(pre):]
		default:
			return false
		}
		for _, e := range oc.Except {
			if e == m {
				return false
			}
		}
		return !strings.Contains(m, ".")
	}
	return false
}
