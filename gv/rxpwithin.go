package main

// `//@ rxpwithin NAME props Cxx kind KIND within: W`
//
// For patterns that are kept in a table - composite literal elements of the
// shape {regexp.MustCompile(LITERAL), KIND} in the package of the contract file
// - decide that every string the pattern matches is also matched by W
// (language inclusion under MatchString semantics). Both patterns are compiled
// with regexp/syntax and run as NFAs (every parse) in lockstep over the rune
// classes both induce; the second one is determinised on the fly. A string
// that the table's pattern accepts and W does not is the counterexample.
// Used where code relies on the SHAPE of what a pattern lets through (the
// parser strips the first and last byte of a string-literal token).

import (
	"fmt"
	"go/ast"
	"go/token"
	"os"
	"regexp"
	"regexp/syntax"
	"sort"
	"strconv"
	"strings"
	"time"
)

type RxpWithinSpec struct {
	Name   string
	Props  []string
	Kind   string
	Within string
	Pkg    string
	File   string
}

type langNFA struct{ prog *syntax.Prog }

func compileLang(pat string) (*langNFA, error) {
	re, err := syntax.Parse(pat, syntax.Perl)
	if err != nil {
		return nil, err
	}
	prog, err := syntax.Compile(re.Simplify())
	if err != nil {
		return nil, err
	}
	return &langNFA{prog}, nil
}

// closure follows the non-consuming instructions from every pc of set under
// the empty-width context cond; it returns the consuming instructions reached
// and whether Match was reached.
func (n *langNFA) closure(set []int, cond syntax.EmptyOp) ([]int, bool) {
	seen := map[int]bool{}
	var out []int
	matched := false
	var visit func(pc int)
	visit = func(pc int) {
		if seen[pc] {
			return
		}
		seen[pc] = true
		i := &n.prog.Inst[pc]
		switch i.Op {
		case syntax.InstAlt, syntax.InstAltMatch:
			visit(int(i.Out))
			visit(int(i.Arg))
		case syntax.InstNop, syntax.InstCapture:
			visit(int(i.Out))
		case syntax.InstEmptyWidth:
			if syntax.EmptyOp(i.Arg)&^cond == 0 {
				visit(int(i.Out))
			}
		case syntax.InstMatch:
			matched = true
		case syntax.InstRune, syntax.InstRune1, syntax.InstRuneAny, syntax.InstRuneAnyNotNL:
			out = append(out, pc)
		}
	}
	for _, pc := range set {
		visit(pc)
	}
	sort.Ints(out)
	return out, matched
}

func (n *langNFA) step(consuming []int, c rune) []int {
	m := map[int]bool{}
	for _, pc := range consuming {
		i := &n.prog.Inst[pc]
		if i.MatchRune(c) {
			m[int(i.Out)] = true
		}
	}
	m[n.prog.Start] = true // MatchString searches: a match may start at any position
	var out []int
	for pc := range m {
		out = append(out, pc)
	}
	sort.Ints(out)
	return out
}

type withinResult struct {
	OK     bool
	Word   string
	States int
	Err    string
}

func decideWithin(pattern, within string) *withinResult {
	p, err := compileLang(pattern)
	if err != nil {
		return &withinResult{Err: "pattern: " + err.Error()}
	}
	w, err := compileLang(within)
	if err != nil {
		return &withinResult{Err: "within: " + err.Error()}
	}
	alpha := rxAlphabet(p.prog, w.prog)
	type st struct {
		ps, ws []int
		mp, mw bool
		prev   rune
		word   []rune
	}
	key := func(s *st) string {
		// only the class of prev matters: represent it by the class representative
		return fmt.Sprint(s.ps, s.ws, s.mp, s.mw, s.prev)
	}
	rep := func(c rune) rune { // class representative of c
		i := sort.Search(len(alpha), func(i int) bool { return alpha[i] > c }) - 1
		if i < 0 {
			return -1
		}
		return alpha[i]
	}
	start := &st{ps: []int{p.prog.Start}, ws: []int{w.prog.Start}, prev: -1}
	queue := []*st{start}
	seen := map[string]bool{key(start): true}
	res := &withinResult{OK: true}
	for len(queue) > 0 {
		s := queue[0]
		queue = queue[1:]
		res.States++
		if res.States > 200000 {
			return &withinResult{Err: "state space too large"}
		}
		// end of text here
		condEnd := syntax.EmptyOpContext(s.prev, -1)
		_, mpE := p.closure(s.ps, condEnd)
		_, mwE := w.closure(s.ws, condEnd)
		if (s.mp || mpE) && !(s.mw || mwE) {
			return &withinResult{OK: false, Word: string(s.word), States: res.States}
		}
		for _, c := range alpha {
			cond := syntax.EmptyOpContext(s.prev, c)
			pc, mp := p.closure(s.ps, cond)
			wc, mw := w.closure(s.ws, cond)
			n := &st{ps: p.step(pc, c), ws: w.step(wc, c), mp: s.mp || mp, mw: s.mw || mw, prev: rep(c)}
			if n.mw {
				continue // whatever follows, W has matched: no counterexample this way
			}
			k := key(n)
			if seen[k] {
				continue
			}
			seen[k] = true
			n.word = append(append([]rune{}, s.word...), c)
			queue = append(queue, n)
		}
	}
	return res
}

// tablePatterns finds {regexp.MustCompile(LITERAL), KIND} elements in the
// syntax trees of package pkg.
func (ctx *checkCtx) tablePatterns(pkg, kind string) []string {
	var pats []string
	for _, p := range ctx.ld.Pkgs {
		if p.Name != pkg {
			continue
		}
		for _, f := range p.Syntax {
			ast.Inspect(f, func(n ast.Node) bool {
				cl, ok := n.(*ast.CompositeLit)
				if !ok || len(cl.Elts) != 2 {
					return true
				}
				id, ok := cl.Elts[1].(*ast.Ident)
				if kv, isKV := cl.Elts[1].(*ast.KeyValueExpr); isKV {
					id, ok = kv.Value.(*ast.Ident)
				}
				if !ok || id.Name != kind {
					return true
				}
				first := cl.Elts[0]
				if kv, isKV := first.(*ast.KeyValueExpr); isKV {
					first = kv.Value
				}
				call, ok := first.(*ast.CallExpr)
				if !ok || len(call.Args) != 1 {
					return true
				}
				sel, ok := call.Fun.(*ast.SelectorExpr)
				if !ok || sel.Sel.Name != "MustCompile" {
					return true
				}
				lit, ok := call.Args[0].(*ast.BasicLit)
				if !ok || lit.Kind != token.STRING {
					return true
				}
				if s, err := strconv.Unquote(lit.Value); err == nil {
					pats = append(pats, s)
				}
				return true
			})
		}
	}
	return pats
}

func (ctx *checkCtx) runRxpWithin() *JobResult {
	var specs []*RxpWithinSpec
	for _, s := range ctx.cs.RxpWithins {
		if hasProp(s.Props, ctx.prop) {
			specs = append(specs, s)
		}
	}
	if len(specs) == 0 {
		return nil
	}
	jr := &JobResult{}
	for _, sp := range specs {
		name := "rxpwithin:" + sp.Name
		rec := &ObRecord{Name: name, Kind: "rxp", Fn: sp.Pkg + "." + sp.Kind, Backend: "rxp", Decisive: true}
		jr.Records = append(jr.Records, rec)
		jr.Functions = append(jr.Functions, sp.Pkg+" patterns of kind "+sp.Kind)
		pats := ctx.tablePatterns(sp.Pkg, sp.Kind)
		if len(pats) == 0 {
			rec.Status, rec.Detail = "refuted", "no table entry {regexp.MustCompile(literal), "+sp.Kind+"} can be read in package "+sp.Pkg+" any more"
			continue
		}
		t0 := time.Now()
		rec.Status = "proved"
		for _, pat := range pats {
			r := decideWithin(pat, sp.Within)
			jr.Assumed = append(jr.Assumed, fmt.Sprintf("language inclusion decider: table pattern %q of kind %s within %q (regexp/syntax programs as NFAs, %d product states)", pat, sp.Kind, sp.Within, r.States))
			if r.Err != "" {
				rec.Status, rec.Detail = "error", r.Err
				jr.Errors = append(jr.Errors, name+": "+r.Err)
				break
			}
			if r.OK {
				// cross-check the decider with package regexp: every word of up
				// to 4 runes over the interesting rune classes
				if w := withinCrossCheck(pat, sp.Within); w != "" {
					rec.Status, rec.Detail = "error", "language inclusion decider disagrees with package regexp on "+strconv.Quote(w)
					jr.Errors = append(jr.Errors, name+": "+rec.Detail)
					break
				}
			}
			if !r.OK {
				rec.Status = "refuted"
				rec.Detail = fmt.Sprintf("the pattern %q of kind %s matches %q, which %q does not match", pat, sp.Kind, r.Word, sp.Within)
				rec.Model = map[string]string{"word": fmt.Sprintf("%q", r.Word), "pattern": pat}
				rec.Replay = ctx.writeWithinReplay(sp, pat, r.Word)
				if rec.Replay != "" {
					_, rec.ReplayOutcome = runReplay(rec.Replay, ".")
				}
				break
			}
		}
		rec.Secs = time.Since(t0).Seconds()
	}
	return jr
}

// writeWithinReplay: the counterexample on the real regexp package.
func (ctx *checkCtx) writeWithinReplay(sp *RxpWithinSpec, pat, word string) string {
	dir := outDir() + "/replays/" + ctx.prop
	if err := os.MkdirAll(dir, 0755); err != nil {
		return ""
	}
	path := dir + "/rxpwithin_" + smtIdent(sp.Name) + ".go"
	src := fmt.Sprintf(`// Code generated by gv; replay of obligation rxpwithin:%s
// gv-replay-dir: .
package gedcom

import (
	"fmt"
	"regexp"
	"testing"
)

func TestGvReplay(t *testing.T) {
	pattern, within, word := %q, %q, %q
	if regexp.MustCompile(pattern).MatchString(word) && !regexp.MustCompile(within).MatchString(word) {
		fmt.Printf("GV-REPLAY: VIOLATED the %s pattern %%q of package %s matches %%q, which is outside %%q\n", pattern, word, within)
		return
	}
	fmt.Println("GV-REPLAY: HOLDS")
}
`, sp.Name, pat, sp.Within, word, sp.Kind, sp.Pkg)
	if err := os.WriteFile(path, []byte(src), 0644); err != nil {
		return ""
	}
	return path
}

// withinCrossCheck enumerates short words and asks package regexp itself.
func withinCrossCheck(pattern, within string) string {
	p, err1 := regexp.Compile(pattern)
	w, err2 := regexp.Compile(within)
	if err1 != nil || err2 != nil {
		return ""
	}
	pn, _ := compileLang(pattern)
	wn, _ := compileLang(within)
	alpha := rxAlphabet(pn.prog, wn.prog)
	var reps []rune
	for _, c := range alpha {
		if c == '"' || c == '\n' || c == 'a' || c == '0' || c == ' ' || c == '.' || c == '_' || len(reps) < 4 {
			reps = append(reps, c)
		}
	}
	var rec func(prefix []rune, depth int) string
	rec = func(prefix []rune, depth int) string {
		s := string(prefix)
		if p.MatchString(s) && !w.MatchString(s) {
			return s
		}
		if depth == 0 {
			return ""
		}
		for _, c := range reps {
			if r := rec(append(prefix, c), depth-1); r != "" {
				return r
			}
		}
		return ""
	}
	return rec(nil, 4)
}

var _ = strings.TrimSpace
