package main

// The shape of a function: its SSA with every local, parameter and captured
// name erased. Renaming a variable leaves the shape alone; any change to what
// the code does changes it. Used to tell a contract that went stale through a
// pure rename (no alarm) from one whose variable was removed or replaced by a
// change to the code (its failing obligations are reported as usual).

import (
	"crypto/sha256"
	"fmt"
	"go/types"
	"strings"

	"golang.org/x/tools/go/ssa"
)

func shapeOf(fn *ssa.Function) string {
	if fn == nil {
		return ""
	}
	idx := map[ssa.Value]string{}
	for i, p := range fn.Params {
		idx[p] = fmt.Sprintf("P%d", i)
	}
	for i, p := range fn.FreeVars {
		idx[p] = fmt.Sprintf("F%d", i)
	}
	n := 0
	for _, b := range fn.Blocks {
		for _, in := range b.Instrs {
			if v, ok := in.(ssa.Value); ok {
				idx[v] = fmt.Sprintf("t%d", n)
				n++
			}
		}
	}
	name := func(v ssa.Value) string {
		if v == nil {
			return "_"
		}
		if s, ok := idx[v]; ok {
			return s
		}
		switch x := v.(type) {
		case *ssa.Const:
			return "c:" + x.String()
		case *ssa.Global:
			return "g:" + x.String()
		case *ssa.Function:
			return "f:" + x.String()
		case *ssa.Builtin:
			return "b:" + x.Name()
		}
		return "?" + v.Type().String()
	}
	var sb strings.Builder
	qual := func(p *types.Package) string { return p.Path() }
	for _, b := range fn.Blocks {
		fmt.Fprintf(&sb, "B%d", b.Index)
		for _, s := range b.Succs {
			fmt.Fprintf(&sb, ">%d", s.Index)
		}
		sb.WriteString("\n")
		for _, in := range b.Instrs {
			if _, ok := in.(*ssa.DebugRef); ok {
				continue
			}
			fmt.Fprintf(&sb, "%T", in)
			if v, ok := in.(ssa.Value); ok {
				sb.WriteString(" :" + types.TypeString(v.Type(), qual))
			}
			switch x := in.(type) {
			case *ssa.BinOp:
				sb.WriteString(" " + x.Op.String())
			case *ssa.UnOp:
				fmt.Fprintf(&sb, " %s %v", x.Op.String(), x.CommaOk)
			case *ssa.FieldAddr:
				fmt.Fprintf(&sb, " .%d", x.Field)
			case *ssa.Field:
				fmt.Fprintf(&sb, " .%d", x.Field)
			case *ssa.Extract:
				fmt.Fprintf(&sb, " #%d", x.Index)
			case *ssa.TypeAssert:
				fmt.Fprintf(&sb, " %s %v", types.TypeString(x.AssertedType, qual), x.CommaOk)
			case *ssa.Alloc:
				fmt.Fprintf(&sb, " heap=%v", x.Heap)
			case *ssa.Lookup:
				fmt.Fprintf(&sb, " %v", x.CommaOk)
			case *ssa.Select:
				fmt.Fprintf(&sb, " %v %d", x.Blocking, len(x.States))
			case *ssa.MakeClosure:
				if f, ok := x.Fn.(*ssa.Function); ok {
					sb.WriteString(" clo:" + shapeOf(f))
				}
			case ssa.CallInstruction:
				c := x.Common()
				if c.IsInvoke() {
					sb.WriteString(" invoke " + c.Method.FullName())
				}
			}
			for _, op := range in.Operands(nil) {
				if op == nil || *op == nil {
					sb.WriteString(" _")
					continue
				}
				sb.WriteString(" " + name(*op))
			}
			sb.WriteString("\n")
		}
	}
	return fmt.Sprintf("%x", sha256.Sum256([]byte(sb.String())))[:16]
}
