package main

// Replay of solver models against the real code: a generated in-package test
// injected with `go test -overlay` (nothing is written into /repo).

import (
	"bytes"
	"context"
	"encoding/json"
	"fmt"
	"go/ast"
	"go/token"
	"go/types"
	"os"
	"os/exec"
	"path/filepath"
	"regexp"
	"strconv"
	"strings"
	"time"

	"golang.org/x/tools/go/ssa"
)

const replayHelpers = `
func gvI(n int64) *big.Int { return big.NewInt(n) }
func gvIs(s string) *big.Int { z, _ := new(big.Int).SetString(s, 10); return z }
func gvR(s string) *big.Rat { z, _ := new(big.Rat).SetString(s); return z }
func gvRf(f float64) *big.Rat { z := new(big.Rat); if z.SetFloat64(f) == nil { return new(big.Rat) }; return z }
func gvItoR(i *big.Int) *big.Rat { return new(big.Rat).SetInt(i) }
func gvAdd(a, b *big.Int) *big.Int { return new(big.Int).Add(a, b) }
func gvSub(a, b *big.Int) *big.Int { return new(big.Int).Sub(a, b) }
func gvMul(a, b *big.Int) *big.Int { return new(big.Int).Mul(a, b) }
func gvNeg(a *big.Int) *big.Int { return new(big.Int).Neg(a) }
func gvDiv(a, b *big.Int) *big.Int { if b.Sign() == 0 { return new(big.Int) }; q, m := new(big.Int), new(big.Int); q.DivMod(a, b, m); return q }
func gvMod(a, b *big.Int) *big.Int { if b.Sign() == 0 { return new(big.Int).Set(a) }; q, m := new(big.Int), new(big.Int); q.DivMod(a, b, m); return m }
func gvRAdd(a, b *big.Rat) *big.Rat { return new(big.Rat).Add(a, b) }
func gvRSub(a, b *big.Rat) *big.Rat { return new(big.Rat).Sub(a, b) }
func gvRMul(a, b *big.Rat) *big.Rat { return new(big.Rat).Mul(a, b) }
func gvRNeg(a *big.Rat) *big.Rat { return new(big.Rat).Neg(a) }
func gvRDiv(a, b *big.Rat) *big.Rat { if b.Sign() == 0 { return new(big.Rat) }; return new(big.Rat).Quo(a, b) }
func gvFloor(a *big.Rat) *big.Int { q, m := new(big.Int), new(big.Int); q.DivMod(a.Num(), a.Denom(), m); return q }
func gvIteI(c bool, a, b func() *big.Int) *big.Int { if c { return a() }; return b() }
func gvIteR(c bool, a, b func() *big.Rat) *big.Rat { if c { return a() }; return b() }
func gvIteB(c bool, a, b func() bool) bool { if c { return a() }; return b() }
func gvIteS(c bool, a, b func() string) string { if c { return a() }; return b() }
var gvEpoch = time.Date(1, 1, 1, 0, 0, 0, 0, time.UTC)
func gvTime(t time.Time) *big.Int {
	secs := big.NewInt(t.Unix() - gvEpoch.Unix())
	ns := new(big.Int).Mul(secs, big.NewInt(1000000000))
	return ns.Add(ns, big.NewInt(int64(t.Nanosecond())))
}
`

type goTr struct {
	ex     *Exec
	cs     *ContractSet
	vars   map[string]trVar // name -> Go expression + sort
	fn     *ssa.Function
	specs  map[string]bool // spec funcs needed
	consts map[string]bool
	err    error
	ld     *Loaded
}

type trVar struct {
	code string
	sort Sort
	typ  types.Type // Go type when the value is a Go value (struct etc.)
}

type trVal struct {
	code string
	sort Sort
	typ  types.Type
}

func (t *goTr) fail(format string, a ...interface{}) trVal {
	if t.err == nil {
		t.err = fmt.Errorf(format, a...)
	}
	return trVal{"nil", SInt, nil}
}

// goValToSpec converts a Go-typed expression into the spec representation.
func goValToSpec(code string, typ types.Type) (trVal, bool) {
	if isTimeTime(typ) {
		return trVal{"gvTime(" + code + ")", SInt, nil}, true
	}
	s, ok := scalarSort(typ)
	if !ok {
		return trVal{code, "", typ}, true
	}
	switch s {
	case SInt:
		if _, isPtr := typ.Underlying().(*types.Pointer); isPtr {
			return trVal{code, "ptr", typ}, true
		}
		if b, isB := typ.Underlying().(*types.Basic); isB && b.Info()&types.IsInteger != 0 {
			return trVal{"gvI(int64(" + code + "))", SInt, nil}, true
		}
		return trVal{code, "go", typ}, true
	case SBool:
		return trVal{code, SBool, nil}, true
	case SReal:
		return trVal{"gvRf(float64(" + code + "))", SReal, nil}, true
	case SStr:
		return trVal{"string(" + code + ")", SStr, nil}, true
	case SIface:
		return trVal{code, SIface, typ}, true
	}
	return trVal{code, "go", typ}, true
}

func (t *goTr) tr(e ast.Expr) trVal {
	switch x := e.(type) {
	case *ast.ParenExpr:
		v := t.tr(x.X)
		v.code = "(" + v.code + ")"
		return v
	case *ast.BasicLit:
		switch x.Kind {
		case token.INT:
			return trVal{"gvIs(\"" + x.Value + "\")", SInt, nil}
		case token.FLOAT:
			return trVal{"gvR(\"" + x.Value + "\")", SReal, nil}
		case token.STRING:
			return trVal{x.Value, SStr, nil}
		case token.CHAR:
			return trVal{"gvI(int64(" + x.Value + "))", SInt, nil}
		}
	case *ast.Ident:
		if v, ok := t.vars[x.Name]; ok {
			return trVal{v.code, v.sort, v.typ}
		}
		switch x.Name {
		case "true", "false":
			return trVal{x.Name, SBool, nil}
		case "nil":
			return trVal{"nil", "nil", nil}
		}
		if _, ok := t.cs.Consts[x.Name]; ok {
			t.consts[x.Name] = true
			return trVal{"gvc_" + x.Name + "()", SInt, nil}
		}
		// Go package constant
		if tv, ok := t.ex.pkgConst(t.fn, "", x.Name); ok {
			sv := tv.V.(SV)
			return t.constTerm(x.Name, sv, tv.T)
		}
		return t.fail("replay: unknown identifier %s", x.Name)
	case *ast.SelectorExpr:
		if id, ok := x.X.(*ast.Ident); ok {
			if _, isVar := t.vars[id.Name]; !isVar {
				if tv, ok := t.ex.pkgConst(t.fn, id.Name, x.Sel.Name); ok {
					return t.constTerm(id.Name+"."+x.Sel.Name, tv.V.(SV), tv.T)
				}
			}
		}
		base := t.tr(x.X)
		if base.typ == nil {
			return t.fail("replay: field of non-Go value")
		}
		bt := base.typ
		if p, ok := bt.Underlying().(*types.Pointer); ok {
			bt = p.Elem()
		}
		st, ok := bt.Underlying().(*types.Struct)
		if !ok {
			return t.fail("replay: field of non-struct")
		}
		for i := 0; i < st.NumFields(); i++ {
			if st.Field(i).Name() == x.Sel.Name {
				v, _ := goValToSpec(base.code+"."+x.Sel.Name, st.Field(i).Type())
				return v
			}
		}
		return t.fail("replay: no field %s", x.Sel.Name)
	case *ast.UnaryExpr:
		v := t.tr(x.X)
		switch x.Op {
		case token.NOT:
			return trVal{"!(" + v.code + ")", SBool, nil}
		case token.SUB:
			if v.sort == SReal {
				return trVal{"gvRNeg(" + v.code + ")", SReal, nil}
			}
			return trVal{"gvNeg(" + v.code + ")", SInt, nil}
		}
	case *ast.BinaryExpr:
		a, b := t.tr(x.X), t.tr(x.Y)
		switch x.Op {
		case token.LAND:
			return trVal{"(" + a.code + " && " + b.code + ")", SBool, nil}
		case token.LOR:
			return trVal{"(" + a.code + " || " + b.code + ")", SBool, nil}
		}
		if a.sort == "nil" || b.sort == "nil" {
			o := a
			if a.sort == "nil" {
				o = b
			}
			op := "=="
			if x.Op == token.NEQ {
				op = "!="
			}
			return trVal{"(" + o.code + " " + op + " nil)", SBool, nil}
		}
		if a.sort == SReal && b.sort == SInt {
			b = trVal{"gvItoR(" + b.code + ")", SReal, nil}
		}
		if a.sort == SInt && b.sort == SReal {
			a = trVal{"gvItoR(" + a.code + ")", SReal, nil}
		}
		switch a.sort {
		case SInt:
			switch x.Op {
			case token.ADD:
				return trVal{"gvAdd(" + a.code + ", " + b.code + ")", SInt, nil}
			case token.SUB:
				return trVal{"gvSub(" + a.code + ", " + b.code + ")", SInt, nil}
			case token.MUL:
				return trVal{"gvMul(" + a.code + ", " + b.code + ")", SInt, nil}
			case token.QUO:
				return trVal{"gvDiv(" + a.code + ", " + b.code + ")", SInt, nil}
			case token.REM:
				return trVal{"gvMod(" + a.code + ", " + b.code + ")", SInt, nil}
			case token.EQL, token.NEQ, token.LSS, token.LEQ, token.GTR, token.GEQ:
				return trVal{"(" + a.code + ".Cmp(" + b.code + ") " + x.Op.String() + " 0)", SBool, nil}
			}
		case SReal:
			switch x.Op {
			case token.ADD:
				return trVal{"gvRAdd(" + a.code + ", " + b.code + ")", SReal, nil}
			case token.SUB:
				return trVal{"gvRSub(" + a.code + ", " + b.code + ")", SReal, nil}
			case token.MUL:
				return trVal{"gvRMul(" + a.code + ", " + b.code + ")", SReal, nil}
			case token.QUO:
				return trVal{"gvRDiv(" + a.code + ", " + b.code + ")", SReal, nil}
			case token.EQL, token.NEQ, token.LSS, token.LEQ, token.GTR, token.GEQ:
				return trVal{"(" + a.code + ".Cmp(" + b.code + ") " + x.Op.String() + " 0)", SBool, nil}
			}
		case SBool, SStr:
			switch x.Op {
			case token.EQL, token.NEQ, token.LSS, token.LEQ, token.GTR, token.GEQ:
				return trVal{"(" + a.code + " " + x.Op.String() + " " + b.code + ")", SBool, nil}
			case token.ADD:
				return trVal{"(" + a.code + " + " + b.code + ")", SStr, nil}
			}
		}
		return t.fail("replay: binary %s on %s", x.Op, a.sort)
	case *ast.IndexExpr:
		// literal global map lookup
		if id, ok := x.X.(*ast.Ident); ok {
			if gi := t.ex.literalGlobal(&Frame{fn: t.fn}, id.Name); gi != nil {
				k := t.tr(x.Index)
				mt := gi.g.Type().(*types.Pointer).Elem().Underlying().(*types.Map)
				v, _ := goValToSpec(id.Name+"["+k.code+"]", mt.Elem())
				return v
			}
		}
		return t.fail("replay: index expression")
	case *ast.CallExpr:
		name := ""
		if id, ok := x.Fun.(*ast.Ident); ok {
			name = id.Name
		}
		switch name {
		case "implies":
			a, b := t.tr(x.Args[0]), t.tr(x.Args[1])
			return trVal{"(!(" + a.code + ") || (" + b.code + "))", SBool, nil}
		case "iff":
			a, b := t.tr(x.Args[0]), t.tr(x.Args[1])
			return trVal{"((" + a.code + ") == (" + b.code + "))", SBool, nil}
		case "ite":
			c, a, b := t.tr(x.Args[0]), t.tr(x.Args[1]), t.tr(x.Args[2])
			if a.sort == SReal && b.sort == SInt {
				b = trVal{"gvItoR(" + b.code + ")", SReal, nil}
			}
			if a.sort == SInt && b.sort == SReal {
				a = trVal{"gvItoR(" + a.code + ")", SReal, nil}
			}
			var fn, ty string
			switch a.sort {
			case SInt:
				fn, ty = "gvIteI", "*big.Int"
			case SReal:
				fn, ty = "gvIteR", "*big.Rat"
			case SBool:
				fn, ty = "gvIteB", "bool"
			case SStr:
				fn, ty = "gvIteS", "string"
			default:
				return t.fail("replay: ite of sort %s", a.sort)
			}
			return trVal{fmt.Sprintf("%s(%s, func() %s { return %s }, func() %s { return %s })", fn, c.code, ty, a.code, ty, b.code), a.sort, nil}
		case "old":
			return t.tr(x.Args[0])
		case "div":
			a, b := t.tr(x.Args[0]), t.tr(x.Args[1])
			return trVal{"gvDiv(" + a.code + ", " + b.code + ")", SInt, nil}
		case "mod":
			a, b := t.tr(x.Args[0]), t.tr(x.Args[1])
			return trVal{"gvMod(" + a.code + ", " + b.code + ")", SInt, nil}
		case "real":
			a := t.tr(x.Args[0])
			if a.sort == SReal {
				return a
			}
			return trVal{"gvItoR(" + a.code + ")", SReal, nil}
		case "floor":
			a := t.tr(x.Args[0])
			return trVal{"gvFloor(" + a.code + ")", SInt, nil}
		case "abs":
			a := t.tr(x.Args[0])
			if a.sort == SReal {
				return trVal{"new(big.Rat).Abs(" + a.code + ")", SReal, nil}
			}
			return trVal{"new(big.Int).Abs(" + a.code + ")", SInt, nil}
		case "isnil":
			a := t.tr(x.Args[0])
			return trVal{"(" + a.code + " == nil)", SBool, nil}
		case "len":
			a := t.tr(x.Args[0])
			return trVal{"gvI(int64(len(" + a.code + ")))", SInt, nil}
		}
		if sf, ok := t.cs.Specs[name]; ok {
			if sf.Body == nil {
				return t.fail("replay: ghost function %s is uninterpreted", name)
			}
			t.specs[name] = true
			var as []string
			for i, a := range x.Args {
				v := t.tr(a)
				if i < len(sf.Params) && specSort(sf.Params[i].Type) == SReal && v.sort == SInt {
					v = trVal{"gvItoR(" + v.code + ")", SReal, nil}
				}
				as = append(as, v.code)
			}
			return trVal{"gvs_" + name + "(" + strings.Join(as, ", ") + ")", specSort(sf.Result), nil}
		}
		return t.fail("replay: function %s", name)
	}
	return t.fail("replay: expression %T", e)
}

func (t *goTr) constTerm(name string, sv SV, typ types.Type) trVal {
	switch sv.T.Sort {
	case SInt:
		v := strings.TrimSuffix(strings.TrimPrefix(sv.T.S, "(- "), ")")
		if strings.HasPrefix(sv.T.S, "(- ") {
			v = "-" + v
		}
		return trVal{"gvIs(\"" + v + "\")", SInt, nil}
	case SBool:
		return trVal{sv.T.S, SBool, nil}
	case SStr:
		if s, ok := t.ex.litValue(sv.T); ok {
			return trVal{strconv.Quote(s), SStr, nil}
		}
	case SReal:
		return trVal{"gvRf(float64(" + name + "))", SReal, nil}
	}
	return t.fail("replay: constant %s", name)
}

func goTypeOfSort(s Sort) string {
	switch s {
	case SInt:
		return "*big.Int"
	case SReal:
		return "*big.Rat"
	case SBool:
		return "bool"
	case SStr:
		return "string"
	}
	return "interface{}"
}

// specFuncDefs emits Go definitions of the needed spec functions (transitively).
func (t *goTr) specFuncDefs() string {
	var b strings.Builder
	done := map[string]bool{}
	doneC := map[string]bool{}
	for {
		progress := false
		for name := range t.specs {
			if done[name] {
				continue
			}
			done[name] = true
			progress = true
			sf := t.cs.Specs[name]
			sub := &goTr{ex: t.ex, cs: t.cs, vars: map[string]trVar{}, fn: t.fn, specs: t.specs, consts: t.consts, ld: t.ld}
			var ps []string
			for _, p := range sf.Params {
				s := specSort(p.Type)
				sub.vars[p.Name] = trVar{code: "p_" + p.Name, sort: s}
				ps = append(ps, "p_"+p.Name+" "+goTypeOfSort(s))
			}
			body := sub.tr(sf.Body.Expr)
			if specSort(sf.Result) == SReal && body.sort == SInt {
				body.code = "gvItoR(" + body.code + ")"
			}
			if sub.err != nil && t.err == nil {
				t.err = sub.err
			}
			fmt.Fprintf(&b, "func gvs_%s(%s) %s { return %s }\n", name, strings.Join(ps, ", "), goTypeOfSort(specSort(sf.Result)), body.code)
		}
		for name := range t.consts {
			if doneC[name] {
				continue
			}
			doneC[name] = true
			progress = true
			sub := &goTr{ex: t.ex, cs: t.cs, vars: map[string]trVar{}, fn: t.fn, specs: t.specs, consts: t.consts, ld: t.ld}
			body := sub.tr(t.cs.Consts[name].Expr)
			fmt.Fprintf(&b, "func gvc_%s() %s { return %s }\n", name, goTypeOfSort(body.sort), body.code)
		}
		if !progress {
			break
		}
	}
	return b.String()
}

// ---------------------------------------------------------------------------
// model values -> Go literals

var negRe = regexp.MustCompile(`^\(-\s+([^()]+)\)$`)

func smtIntToGo(v string) (string, bool) {
	v = strings.TrimSpace(v)
	if m := negRe.FindStringSubmatch(v); m != nil {
		return "-" + m[1], true
	}
	if _, err := strconv.ParseInt(v, 10, 64); err == nil {
		return v, true
	}
	return "", false
}

func smtRealToGo(v string) (string, bool) {
	v = strings.TrimSpace(v)
	neg := false
	if m := negRe.FindStringSubmatch(v); m != nil {
		neg = true
		v = m[1]
	} else if strings.HasPrefix(v, "(- ") && strings.HasSuffix(v, ")") {
		neg = true
		v = strings.TrimSpace(v[3 : len(v)-1])
	}
	var out string
	if strings.HasPrefix(v, "(/ ") {
		parts := strings.Fields(strings.TrimSuffix(v[3:], ")"))
		if len(parts) != 2 {
			return "", false
		}
		out = "(" + parts[0] + "/" + parts[1] + ")"
	} else {
		if _, err := strconv.ParseFloat(strings.TrimSuffix(v, "?"), 64); err != nil {
			return "", false
		}
		out = strings.TrimSuffix(v, "?")
	}
	if neg {
		out = "-" + out
	}
	return out, true
}

// goLiteral builds a Go expression of type t from the model entries under name.
func goLiteral(t types.Type, name string, model map[string]string, qual types.Qualifier) (string, bool) {
	key := smtIdent("in." + name)
	if isTimeTime(t) {
		return "", false
	}
	if s, ok := scalarSort(t); ok {
		v, have := model[key]
		if !have {
			// unconstrained input: zero value
			switch s {
			case SInt:
				if _, isPtr := t.Underlying().(*types.Pointer); isPtr {
					return "nil", true
				}
				return "0", true
			case SBool:
				return "false", true
			case SReal:
				return "0", true
			case SStr:
				return `""`, true
			case SIface, SSlice:
				return "nil", true
			}
			return "", false
		}
		switch s {
		case SInt:
			switch t.Underlying().(type) {
			case *types.Pointer, *types.Map, *types.Chan, *types.Signature:
				if strings.TrimSpace(v) == "0" {
					return "nil", true
				}
				return "", false
			}
			g, ok := smtIntToGo(v)
			return g, ok
		case SBool:
			return strings.TrimSpace(v), true
		case SReal:
			return smtRealToGo(v)
		case SIface:
			if strings.HasPrefix(v, "(mk-iface 0 ") {
				return "nil", true
			}
			if types.TypeString(t, nil) == "error" {
				return `errors.New("gv")`, true
			}
			return "", false
		case SSlice:
			if strings.HasPrefix(v, "(mk-slice 0 ") {
				return "nil", true
			}
			return "", false
		case SStr:
			if lit, ok := model["__strlit:"+v]; ok {
				return strconv.Quote(lit), true
			}
			return "", false
		}
		return "", false
	}
	if st, ok := t.Underlying().(*types.Struct); ok {
		var fs []string
		for i := 0; i < st.NumFields(); i++ {
			f, ok := goLiteral(st.Field(i).Type(), name+"."+st.Field(i).Name(), model, qual)
			if !ok {
				return "", false
			}
			fs = append(fs, st.Field(i).Name()+": "+f)
		}
		return types.TypeString(t, qual) + "{" + strings.Join(fs, ", ") + "}", true
	}
	return "", false
}

// replayObligation builds and runs a replay test for a refuted obligation.
func (ctx *checkCtx) replayObligation(r *FuncResult, o *Obligation) (string, string) {
	dir := filepath.Join(outDir(), "replays", ctx.prop)
	os.MkdirAll(dir, 0755)
	path := filepath.Join(dir, smtIdent(o.Name)+".go")
	src, pkgDir, why := ctx.genReplay(r, o)
	if src == "" {
		rec := &ObRecord{Name: o.Name, Kind: o.Kind, Fn: o.Fn, Status: o.Status, Backend: o.Backend, Secs: o.Secs, Model: o.Model, Pos: o.Pos2,
			Detail: "no replay generated: " + why + "\n" + firstLines(o.Output, 6)}
		return writeReplayNote(dir, rec), "not-replayable: " + why
	}
	os.WriteFile(path, []byte(src), 0644)
	out, outcome := runReplay(path, pkgDir)
	// append the outcome to the file as a trailing comment
	f, _ := os.OpenFile(path, os.O_APPEND|os.O_WRONLY, 0644)
	if f != nil {
		fmt.Fprintf(f, "\n// replay outcome at generation time: %s\n// %s\n", outcome, strings.ReplaceAll(firstLines(out, 8), "\n", "\n// "))
		f.Close()
	}
	return path, outcome
}

func pkgDirOf(ld *Loaded, fn *ssa.Function) string {
	f := fn
	for f != nil && f.Pkg == nil {
		f = f.Parent()
	}
	if f == nil {
		return "."
	}
	p := strings.TrimPrefix(f.Pkg.Pkg.Path(), repoModule)
	p = strings.TrimPrefix(p, "/")
	if p == "" {
		return "."
	}
	return p
}

func (ctx *checkCtx) genReplay(r *FuncResult, o *Obligation) (src, pkgDir, why string) {
	fn := ctx.ld.Funcs[r.Key]
	if fn == nil {
		// lemma: template based
		return ctx.genLemmaReplay(r, o)
	}
	if len(o.Model) == 0 {
		return "", "", "solver gave no model"
	}
	pkgDir = pkgDirOf(ctx.ld, fn)
	pkg := fn.Pkg.Pkg
	qual := func(p *types.Package) string {
		if p == pkg {
			return ""
		}
		return p.Name()
	}
	// string literals in the model
	model := map[string]string{}
	for k, v := range o.Model {
		model[k] = v
	}
	ex := r.Exec
	for i, s := range ex.strOrder {
		if v, ok := o.Model[fmt.Sprintf("lit!%d", i)]; ok {
			model["__strlit:"+v] = s
		}
	}
	if v, ok := o.Model["str.empty_"]; ok {
		model["__strlit:"+v] = ""
	}
	var decls []string
	var args []string
	tr := &goTr{ex: ex, cs: ctx.cs, vars: map[string]trVar{}, fn: fn, specs: map[string]bool{}, consts: map[string]bool{}, ld: ctx.ld}
	for i, p := range fn.Params {
		lit, ok := goLiteral(p.Type(), p.Name(), model, qual)
		if !ok {
			return "", "", "parameter " + p.Name() + " of type " + p.Type().String() + " cannot be built from the model"
		}
		vn := fmt.Sprintf("gvp%d", i)
		decls = append(decls, fmt.Sprintf("\tvar %s %s = %s", vn, types.TypeString(p.Type(), qual), lit))
		args = append(args, vn)
		v, _ := goValToSpec(vn, p.Type())
		tr.vars[p.Name()] = trVar{v.code, v.sort, v.typ}
		tr.vars[p.Name()+"0"] = trVar{v.code, v.sort, v.typ}
	}
	// call expression
	var call string
	if fn.Signature.Recv() != nil {
		call = fmt.Sprintf("%s.%s(%s)", args[0], fn.Name(), strings.Join(args[1:], ", "))
	} else {
		call = fmt.Sprintf("%s(%s)", fn.Name(), strings.Join(args, ", "))
	}
	res := fn.Signature.Results()
	var resNames []string
	for i := 0; i < res.Len(); i++ {
		resNames = append(resNames, fmt.Sprintf("gvr%d", i))
		v, _ := goValToSpec(fmt.Sprintf("gvr%d", i), res.At(i).Type())
		tr.vars[fmt.Sprintf("result%d", i)] = trVar{v.code, v.sort, v.typ}
		if i == 0 {
			tr.vars["result"] = trVar{v.code, v.sort, v.typ}
		}
	}
	var body strings.Builder
	body.WriteString(strings.Join(decls, "\n") + "\n")
	kind := o.Kind
	isSafety := kind == "index" || kind == "nil" || kind == "assert" || kind == "slice" || kind == "panic" || kind == "div0" || kind == "nilmap" || kind == "makeslice"
	var check string
	if !isSafety {
		// find the clause
		ct := r.Contract
		var clause *Clause
		if kind == "ensures" {
			for i := range ct.Ensures {
				if strings.HasSuffix(o.Name, "#ensures:"+clauseName(ct.Ensures[i], i)) {
					clause = &ct.Ensures[i]
				}
			}
		}
		if clause == nil {
			return "", "", "obligation kind " + kind + " has no runtime check"
		}
		// lets (evaluated on entry values)
		for _, l := range ct.Lets {
			v := tr.tr(l.Expr)
			body.WriteString(fmt.Sprintf("\tgvl_%s := %s\n\t_ = gvl_%s\n", l.Label, v.code, l.Label))
			tr.vars[l.Label] = trVar{"gvl_" + l.Label, v.sort, v.typ}
		}
		// requires must hold for the model (sanity)
		for _, rq := range ct.Requires {
			v := tr.tr(rq.Expr)
			body.WriteString(fmt.Sprintf("\tif !(%s) { fmt.Println(\"GV-REPLAY: PRECONDITION-NOT-MET %s\"); return }\n", v.code, strconv.Quote(rq.Src)[1:len(strconv.Quote(rq.Src))-1]))
		}
		c := tr.tr(clause.Expr)
		check = c.code
		if tr.err != nil {
			return "", "", tr.err.Error()
		}
	}
	if len(resNames) > 0 {
		body.WriteString("\t" + strings.Join(resNames, ", ") + " := " + call + "\n")
		for _, n := range resNames {
			body.WriteString("\t_ = " + n + "\n")
		}
	} else {
		body.WriteString("\t" + call + "\n")
	}
	if isSafety {
		body.WriteString("\tfmt.Println(\"GV-REPLAY: HOLDS (no panic)\")\n")
	} else {
		body.WriteString(fmt.Sprintf("\tif %s {\n\t\tfmt.Println(\"GV-REPLAY: HOLDS\")\n\t} else {\n\t\tfmt.Printf(\"GV-REPLAY: VIOLATED result=%%v\\n\", []interface{}{%s})\n\t}\n", check, strings.Join(resNames, ", ")))
	}
	var srcB strings.Builder
	fmt.Fprintf(&srcB, "// Code generated by gv; replay of obligation %s\n// function %s, model from %s\n", o.Name, r.Key, o.Backend)
	fmt.Fprintf(&srcB, "// gv-replay-dir: %s\n", pkgDir)
	fmt.Fprintf(&srcB, "package %s\n\nimport (\n\t\"errors\"\n\t\"fmt\"\n\t\"math/big\"\n\t\"testing\"\n\t\"time\"\n)\n\nvar _ = errors.New\nvar _ = big.NewInt\nvar _ = time.Now\n", pkg.Name())
	srcB.WriteString(replayHelpers)
	srcB.WriteString(tr.specFuncDefs())
	if tr.err != nil {
		return "", "", tr.err.Error()
	}
	srcB.WriteString("\nfunc TestGvReplay(t *testing.T) {\n\tdefer func() {\n\t\tif r := recover(); r != nil {\n\t\t\tfmt.Printf(\"GV-REPLAY: PANIC %v\\n\", r)\n\t\t}\n\t}()\n")
	srcB.WriteString(body.String())
	srcB.WriteString("}\n")
	return srcB.String(), pkgDir, ""
}

// genLemmaReplay: lemmas replay through a hand-written template
// /verif/replay_templates/<lemma>.go.tmpl with {{lv.x}} placeholders.
func (ctx *checkCtx) genLemmaReplay(r *FuncResult, o *Obligation) (string, string, string) {
	name := strings.TrimPrefix(r.Key, "lemma.")
	data, err := os.ReadFile(filepath.Join(verifDir(), "replay_templates", name+".go.tmpl"))
	if err != nil {
		return "", "", "no replay template for lemma " + name
	}
	src := string(data)
	for k, v := range o.Model {
		g, ok := smtIntToGo(v)
		if !ok {
			g, ok = smtRealToGo(v)
		}
		if !ok {
			g = v
		}
		src = strings.ReplaceAll(src, "{{"+k+"}}", g)
	}
	if strings.Contains(src, "{{") {
		return "", "", "template placeholders not covered by the model"
	}
	dir := "."
	if m := regexp.MustCompile(`gv-replay-dir:\s*(\S+)`).FindStringSubmatch(src); m != nil {
		dir = m[1]
	}
	return src, dir, ""
}

// runReplay injects the file as zz_gv_replay_test.go into pkgDir via -overlay.
func runReplay(path, pkgDir string) (string, string) {
	repo := repoDir()
	sdir := scratch()
	ov := map[string]map[string]string{"Replace": {filepath.Join(repo, pkgDir, "zz_gv_replay_test.go"): path}}
	ovData, _ := json.Marshal(ov)
	ovFile := filepath.Join(sdir, fmt.Sprintf("ov-%d.json", time.Now().UnixNano()))
	os.WriteFile(ovFile, ovData, 0644)
	defer os.Remove(ovFile)
	cctx, cancel := context.WithTimeout(context.Background(), 120*time.Second)
	defer cancel()
	cmd := exec.CommandContext(cctx, "go", "test", "-overlay", ovFile, "-vet=off", "-v", "-count=1", "-timeout", "60s", "-run", "^TestGvReplay$", "./"+pkgDir)
	cmd.Dir = repo
	cmd.Env = append(os.Environ(), "GOFLAGS=-mod=mod", "GOPROXY=off", "GOSUMDB=off", "GOTOOLCHAIN=local")
	var out bytes.Buffer
	cmd.Stdout = &out
	cmd.Stderr = &out
	cmd.Run()
	text := out.String()
	switch {
	case strings.Contains(text, "GV-REPLAY: VIOLATED"), strings.Contains(text, "GV-REPLAY: PANIC"):
		return text, "reproduced"
	case strings.Contains(text, "GV-REPLAY: HOLDS"):
		return text, "not-reproduced"
	case strings.Contains(text, "GV-REPLAY: PRECONDITION-NOT-MET"):
		return text, "precondition-not-met"
	case strings.Contains(text, "fatal error") || strings.Contains(text, "panic:"):
		return text, "reproduced"
	}
	return text, "replay-error"
}

func cmdReplay(args []string) int {
	if len(args) < 1 {
		fmt.Fprintln(os.Stderr, "usage: gv replay <path>")
		return 2
	}
	path, _ := filepath.Abs(args[0])
	data, err := os.ReadFile(path)
	if err != nil {
		fmt.Fprintln(os.Stderr, err)
		return 2
	}
	if !strings.HasSuffix(path, ".go") {
		fmt.Print(string(data))
		fmt.Println("gv replay: this replay file records a failed obligation without a concrete input (no-failing-input-found)")
		return 1
	}
	dir := "."
	if m := regexp.MustCompile(`gv-replay-dir:\s*(\S+)`).FindStringSubmatch(string(data)); m != nil {
		dir = m[1]
	}
	out, outcome := runReplay(path, dir)
	fmt.Print(out)
	fmt.Println("gv replay:", outcome)
	if outcome == "reproduced" {
		return 1
	}
	return 0
}
