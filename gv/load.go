package main

// Loading /repo's current working tree into go/ssa on every run.

import (
	"bytes"
	"crypto/sha256"
	"encoding/hex"
	"fmt"
	"go/ast"
	"go/printer"
	"go/token"
	"go/types"
	"os"
	"sort"
	"strings"

	"golang.org/x/tools/go/packages"
	"golang.org/x/tools/go/ssa"
	"golang.org/x/tools/go/ssa/ssautil"
)

type Loaded struct {
	Dir    string
	Fset   *token.FileSet
	Pkgs   []*packages.Package
	Prog   *ssa.Program
	SPkgs  []*ssa.Package
	Funcs  map[string]*ssa.Function // by key
	AllFns []*ssa.Function
	files  map[string]*ast.File // filename -> AST
	pkgOfFile map[*ast.File]*packages.Package
	Digest string
}

func repoDir() string {
	if d := os.Getenv("GV_REPO"); d != "" {
		return d
	}
	return "/repo"
}

func LoadRepo() (*Loaded, error) {
	dir := repoDir()
	cfg := &packages.Config{Mode: packages.LoadAllSyntax, Dir: dir, BuildFlags: []string{"-tags", "verif"},
		Env: append(os.Environ(), "GOFLAGS=-mod=mod", "GOPROXY=off", "GOSUMDB=off", "GOTOOLCHAIN=local")}
	pkgs, err := packages.Load(cfg, "./...")
	if err != nil {
		return nil, err
	}
	var errs []string
	for _, p := range pkgs {
		for _, e := range p.Errors {
			errs = append(errs, e.Error())
		}
	}
	if len(errs) > 0 {
		return nil, fmt.Errorf("package errors: %s", strings.Join(errs, "; "))
	}
	prog, spkgs := ssautil.AllPackages(pkgs, ssa.InstantiateGenerics|ssa.GlobalDebug)
	prog.Build()
	ld := &Loaded{Dir: dir, Pkgs: pkgs, Prog: prog, SPkgs: spkgs, Funcs: map[string]*ssa.Function{}, files: map[string]*ast.File{},
		pkgOfFile: map[*ast.File]*packages.Package{}}
	if len(pkgs) > 0 {
		ld.Fset = pkgs[0].Fset
	}
	h := sha256.New()
	var fnames []string
	for _, p := range pkgs {
		for i, f := range p.Syntax {
			name := p.CompiledGoFiles[i]
			ld.files[name] = f
			ld.pkgOfFile[f] = p
			fnames = append(fnames, name)
		}
	}
	sort.Strings(fnames)
	for _, n := range fnames {
		if strings.HasSuffix(n, "_test.go") {
			continue
		}
		b, _ := os.ReadFile(n)
		h.Write([]byte(n))
		h.Write(b)
	}
	ld.Digest = hex.EncodeToString(h.Sum(nil))[:16]
	for fn := range ssautil.AllFunctions(prog) {
		ld.AllFns = append(ld.AllFns, fn)
		k := funcKey(fn)
		if k != "" {
			if old, ok := ld.Funcs[k]; !ok || funcRank(fn) < funcRank(old) || (funcRank(fn) == funcRank(old) && fn.String() < old.String()) {
				ld.Funcs[k] = fn
			}
		}
	}
	sort.Slice(ld.AllFns, func(i, j int) bool { return ld.AllFns[i].String() < ld.AllFns[j].String() })
	return ld, nil
}

// funcRank orders functions sharing a key: declared > pointer-receiver wrapper > other synthetic.
func funcRank(fn *ssa.Function) int {
	if fn.Synthetic == "" {
		return 0
	}
	if r := fn.Signature.Recv(); r != nil {
		if _, ok := r.Type().(*types.Pointer); ok && strings.HasPrefix(fn.Synthetic, "wrapper") {
			return 1
		}
	}
	if strings.HasPrefix(fn.Synthetic, "wrapper") {
		return 2
	}
	return 3
}

// funcKey gives a stable short key: "gedcom.Date.Time", "gedcom.NewDateRange",
// "time.Time.Truncate", "fmt.Sprintf", closures "gedcom.DeepCopy$1".
func funcKey(fn *ssa.Function) string {
	if fn == nil {
		return ""
	}
	if fn.Parent() != nil {
		// anonymous function: parent key + $n
		name := fn.Name() // e.g. DeepCopy$1
		pk := funcKey(fn.Parent())
		if i := strings.LastIndex(name, "$"); i >= 0 {
			return pk + name[i:]
		}
		return pk + "$" + name
	}
	pkgName := ""
	if fn.Pkg != nil {
		pkgName = fn.Pkg.Pkg.Name()
	} else if fn.Object() != nil && fn.Object().Pkg() != nil {
		pkgName = fn.Object().Pkg().Name()
	}
	if recv := fn.Signature.Recv(); recv != nil {
		t := recv.Type()
		if p, ok := t.(*types.Pointer); ok {
			t = p.Elem()
		}
		if n, ok := t.(*types.Named); ok {
			if n.Obj().Pkg() != nil {
				pkgName = n.Obj().Pkg().Name()
			}
			return pkgName + "." + n.Obj().Name() + "." + fn.Name()
		}
		return pkgName + ".?." + fn.Name()
	}
	return pkgName + "." + fn.Name()
}

func inRepo(fn *ssa.Function) bool {
	var p *types.Package
	if fn.Pkg != nil {
		p = fn.Pkg.Pkg
	} else if fn.Object() != nil {
		p = fn.Object().Pkg()
	} else if fn.Parent() != nil {
		return inRepo(fn.Parent())
	}
	return p != nil && strings.HasPrefix(p.Path(), repoModule)
}

// ---------------------------------------------------------------------------
// source text for stable obligation names

func (ld *Loaded) fileAt(pos token.Pos) *ast.File {
	if !pos.IsValid() {
		return nil
	}
	p := ld.Fset.Position(pos)
	return ld.files[p.Filename]
}

func (ld *Loaded) nodeText(n ast.Node) string {
	var b bytes.Buffer
	printer.Fprint(&b, ld.Fset, n)
	return strings.Join(strings.Fields(b.String()), " ")
}

// exprAt finds the innermost expression of the wanted kind at pos.
func (ld *Loaded) exprAt(pos token.Pos, want string) string {
	f := ld.fileAt(pos)
	if f == nil {
		return ""
	}
	var best ast.Node
	ast.Inspect(f, func(n ast.Node) bool {
		if n == nil {
			return false
		}
		if pos < n.Pos() || pos > n.End() {
			return false
		}
		ok := false
		switch x := n.(type) {
		case *ast.IndexExpr:
			ok = want == "index" && (x.Lbrack == pos || x.Pos() == pos)
		case *ast.SliceExpr:
			ok = want == "slice" && (x.Lbrack == pos || x.Pos() == pos)
		case *ast.TypeAssertExpr:
			ok = want == "assert" && (x.Lparen == pos || x.Pos() == pos)
		case *ast.CallExpr:
			ok = want == "call" && (x.Lparen == pos || x.Pos() == pos)
		case *ast.SelectorExpr:
			ok = want == "field" && (x.Sel.Pos() == pos || x.Pos() == pos)
		case *ast.StarExpr:
			ok = want == "deref" && x.Pos() == pos
		case *ast.BinaryExpr:
			ok = want == "binop" && x.OpPos == pos
		}
		if ok {
			best = n
		}
		return true
	})
	if best == nil {
		return ""
	}
	t := ld.nodeText(best)
	if len(t) > 80 {
		t = t[:80]
	}
	return t
}

func (ld *Loaded) posString(pos token.Pos) string {
	if !pos.IsValid() {
		return ""
	}
	p := ld.Fset.Position(pos)
	return fmt.Sprintf("%s:%d", strings.TrimPrefix(p.Filename, ld.Dir+"/"), p.Line)
}

// loopOrdinals maps each for/range statement position in fn's syntax to its
// ordinal (1-based, source order, nested function literals excluded).
func (ld *Loaded) loopOrdinals(fn *ssa.Function) []ast.Node {
	syn := fn.Syntax()
	if syn == nil {
		return nil
	}
	var body *ast.BlockStmt
	switch s := syn.(type) {
	case *ast.FuncDecl:
		body = s.Body
	case *ast.FuncLit:
		body = s.Body
	}
	if body == nil {
		return nil
	}
	var loops []ast.Node
	ast.Inspect(body, func(n ast.Node) bool {
		switch n.(type) {
		case *ast.FuncLit:
			return false
		case *ast.ForStmt, *ast.RangeStmt:
			loops = append(loops, n)
		}
		return true
	})
	return loops
}
