package main

// The regex-capture decider (DESIGN.md 4.1).
//
// Question decided: for every sentence s of a marked language W (a regular
// expression written in the contract from the property text, whose named
// groups g1, g2, ... mark the segments the property says must be captured),
// does the regexp R of the code (the pattern of a package-level
// regexp.MustCompile, read from the current source) match s, and do R's
// capture groups 1, 2, ... sit exactly on W's marks (an absent mark means
// the group is unset or empty)?
//
// Method: exhaustive exploration of the product of
//   (a) W's compiled program run as an NFA (every parse of every sentence), and
//   (b) R's compiled program run as Go's Pike VM (leftmost-first: an ordered
//       thread list, first match cuts lower priorities),
// over the finite partition of the rune alphabet induced by the character
// classes of both programs. Capture positions are abstracted to their
// relation with W's marks (never set / set at the same position / set at
// different positions), which is all the question asks, so the product is
// finite. A failing product state comes with the word that reaches it.
//
// Both programs are compiled with the regexp/syntax package the runtime uses.
// Trusted: that the VM below has the semantics of package regexp; it is
// checked on every run against regexp.FindStringSubmatchIndex on words drawn
// from the explored alphabet (disagreement is an engine error).

import (
	"fmt"
	"math/rand"
	"regexp"
	"regexp/syntax"
	"sort"
	"strings"
	"unicode"
)

// ---------------------------------------------------------------------------
// a Pike VM with pluggable capture payloads

const eot = rune(-1)

type capPayload interface {
	set(slot int, pos int) capPayload
	key() string
}

type rxThread struct {
	pc  int
	cap capPayload
}

type pikeVM struct {
	prog     *syntax.Prog
	anchored bool // program starts with \A (EmptyBeginText)
}

func newPikeVM(prog *syntax.Prog) *pikeVM {
	return &pikeVM{prog: prog, anchored: prog.StartCond()&syntax.EmptyBeginText != 0}
}

// closure adds (pc, cap) at position pos with empty-width context cond,
// following Go's machine.add: depth-first, Out before Arg, first visit wins.
func (vm *pikeVM) closure(q *[]rxThread, seen map[int]bool, pc int, pos int, cap capPayload, cond syntax.EmptyOp) {
	if pc == 0 || seen[pc] {
		return
	}
	seen[pc] = true
	i := &vm.prog.Inst[pc]
	switch i.Op {
	case syntax.InstFail:
	case syntax.InstAlt, syntax.InstAltMatch:
		vm.closure(q, seen, int(i.Out), pos, cap, cond)
		vm.closure(q, seen, int(i.Arg), pos, cap, cond)
	case syntax.InstEmptyWidth:
		if syntax.EmptyOp(i.Arg)&^cond == 0 {
			vm.closure(q, seen, int(i.Out), pos, cap, cond)
		}
	case syntax.InstNop:
		vm.closure(q, seen, int(i.Out), pos, cap, cond)
	case syntax.InstCapture:
		vm.closure(q, seen, int(i.Out), pos, cap.set(int(i.Arg), pos), cond)
	case syntax.InstMatch, syntax.InstRune, syntax.InstRune1, syntax.InstRuneAny, syntax.InstRuneAnyNotNL:
		*q = append(*q, rxThread{pc, cap})
	}
}

type vmState struct {
	pending  []rxThread // threads to be closed at the current position, in priority order
	matched  bool
	matchCap capPayload
}

// advance processes one position: closes the pending threads with the context
// (prev, c), adds the start thread when Go would, steps on c (eot = end).
func (vm *pikeVM) advance(st vmState, pos int, prev, c rune, fresh capPayload) vmState {
	cond := syntax.EmptyOpContext(prev, c)
	var runq []rxThread
	seen := map[int]bool{}
	for _, t := range st.pending {
		vm.closure(&runq, seen, t.pc, pos, t.cap, cond)
	}
	if !st.matched && (pos == 0 || !vm.anchored) {
		vm.closure(&runq, seen, vm.prog.Start, pos, fresh.set(0, pos), cond)
	}
	out := vmState{matched: st.matched, matchCap: st.matchCap}
	for _, t := range runq {
		i := &vm.prog.Inst[t.pc]
		switch i.Op {
		case syntax.InstMatch:
			out.matched = true
			out.matchCap = t.cap.set(1, pos)
			// first-match mode: cut off all lower-priority threads
			return out
		default:
			if c != eot && i.MatchRune(c) {
				out.pending = append(out.pending, rxThread{int(i.Out), t.cap})
			}
		}
	}
	return out
}

// concrete payload (validation against package regexp)
type concCaps []int

func (c concCaps) set(slot, pos int) capPayload {
	n := make(concCaps, len(c))
	copy(n, c)
	if slot < len(n) {
		n[slot] = pos
	}
	return n
}
func (c concCaps) key() string { return fmt.Sprint([]int(c)) }

func (vm *pikeVM) runConcrete(s []rune) []int {
	fresh := make(concCaps, vm.prog.NumCap)
	for i := range fresh {
		fresh[i] = -1
	}
	st := vmState{}
	prev := eot
	for pos := 0; ; pos++ {
		c := eot
		if pos < len(s) {
			c = s[pos]
		}
		st = vm.advance(st, pos, prev, c, fresh)
		if c == eot {
			break
		}
		if len(st.pending) == 0 && (st.matched || vm.anchored) {
			break
		}
		prev = c
	}
	if !st.matched {
		return nil
	}
	return []int(st.matchCap.(concCaps))
}

// ---------------------------------------------------------------------------
// alphabet partition

func rxAlphabet(progs ...*syntax.Prog) []rune {
	cut := map[rune]bool{0: true, '\n': true, '\n' + 1: true}
	add := func(r rune) {
		if r >= 0 && r <= unicode.MaxRune {
			cut[r] = true
		}
		if r+1 <= unicode.MaxRune {
			cut[r+1] = true
		}
	}
	for _, p := range progs {
		for i := range p.Inst {
			in := &p.Inst[i]
			switch in.Op {
			case syntax.InstRune, syntax.InstRune1:
				for k := 0; k+1 < len(in.Rune); k += 2 {
					cut[in.Rune[k]] = true
					if in.Rune[k+1]+1 <= unicode.MaxRune {
						cut[in.Rune[k+1]+1] = true
					}
				}
				if len(in.Rune) == 1 {
					add(in.Rune[0])
					if syntax.Flags(in.Arg)&syntax.FoldCase != 0 {
						for r := unicode.SimpleFold(in.Rune[0]); r != in.Rune[0]; r = unicode.SimpleFold(r) {
							add(r)
						}
					}
				}
				if syntax.Flags(in.Arg)&syntax.FoldCase != 0 {
					for k := 0; k+1 < len(in.Rune); k += 2 {
						if in.Rune[k+1]-in.Rune[k] < 128 {
							for r := in.Rune[k]; r <= in.Rune[k+1]; r++ {
								for f := unicode.SimpleFold(r); f != r; f = unicode.SimpleFold(f) {
									add(f)
								}
							}
						}
					}
				}
			}
		}
	}
	// word-character boundaries matter for \b
	for _, r := range []rune{'0', '9' + 1, 'A', 'Z' + 1, '_', '_' + 1, 'a', 'z' + 1} {
		cut[r] = true
	}
	var cs []rune
	for r := range cut {
		if r >= 0xD800 && r <= 0xDFFF {
			continue
		}
		cs = append(cs, r)
	}
	sort.Slice(cs, func(i, j int) bool { return cs[i] < cs[j] })
	return cs // one representative (the first rune) per class
}

// ---------------------------------------------------------------------------
// the product

// relation of the last position at which R set a slot and the last position at
// which W emitted the corresponding mark
const (
	relNN byte = iota // neither
	relW              // only W so far
	relR              // only R so far
	relEQ             // both, same position
	relNE             // both, different positions
)

type absCaps struct {
	rel    []byte // per R slot
	cur    []bool // slot set by R at the current position (reset per position)
	empty  []bool // per group: R's span is empty
	ctx    *rxCtx
}

type rxCtx struct {
	wNow map[int]bool // R slots whose W mark is emitted at the current position
}

func (a *absCaps) set(slot, pos int) capPayload {
	n := &absCaps{rel: append([]byte{}, a.rel...), cur: append([]bool{}, a.cur...), empty: append([]bool{}, a.empty...), ctx: a.ctx}
	if slot >= len(n.rel) {
		return n
	}
	n.cur[slot] = true
	if slot%2 == 1 {
		n.empty[slot/2] = n.cur[slot-1]
	}
	return n
}

func (a *absCaps) key() string {
	var b strings.Builder
	b.Write(a.rel)
	for _, e := range a.empty {
		if e {
			b.WriteByte('e')
		} else {
			b.WriteByte('.')
		}
	}
	return b.String()
}

// settle folds the events of the position just processed into the relations.
func (a *absCaps) settle(wNow map[int]bool, wEver []bool) *absCaps {
	n := &absCaps{rel: append([]byte{}, a.rel...), cur: make([]bool, len(a.cur)), empty: append([]bool{}, a.empty...), ctx: a.ctx}
	for s := range n.rel {
		inW, inR := wNow[s], a.cur[s]
		switch {
		case inW && inR:
			n.rel[s] = relEQ
		case inW:
			if n.rel[s] == relNN || n.rel[s] == relW {
				n.rel[s] = relW
			} else {
				n.rel[s] = relNE
			}
		case inR:
			if n.rel[s] == relNN || n.rel[s] == relR {
				if wEver[s] {
					n.rel[s] = relNE
				} else {
					n.rel[s] = relR
				}
			} else {
				n.rel[s] = relNE
			}
		}
	}
	return n
}

type wThread struct {
	pc     int
	events map[int]bool // W capture slots set during the closure at this position
}

// wClosure enumerates every way W can reach a consuming instruction (or
// Match) from pc at one position: all parses, not leftmost-first.
func wClosure(prog *syntax.Prog, pc int, cond syntax.EmptyOp, ev map[int]bool, onPath map[int]bool, out *[]wThread) {
	if pc == 0 || onPath[pc] {
		return
	}
	onPath[pc] = true
	defer delete(onPath, pc)
	i := &prog.Inst[pc]
	switch i.Op {
	case syntax.InstAlt, syntax.InstAltMatch:
		wClosure(prog, int(i.Out), cond, ev, onPath, out)
		wClosure(prog, int(i.Arg), cond, ev, onPath, out)
	case syntax.InstEmptyWidth:
		if syntax.EmptyOp(i.Arg)&^cond == 0 {
			wClosure(prog, int(i.Out), cond, ev, onPath, out)
		}
	case syntax.InstNop:
		wClosure(prog, int(i.Out), cond, ev, onPath, out)
	case syntax.InstCapture:
		n := map[int]bool{}
		for k := range ev {
			n[k] = true
		}
		n[int(i.Arg)] = true
		wClosure(prog, int(i.Out), cond, n, onPath, out)
	case syntax.InstMatch, syntax.InstRune, syntax.InstRune1, syntax.InstRuneAny, syntax.InstRuneAnyNotNL:
		cp := map[int]bool{}
		for k := range ev {
			cp[k] = true
		}
		*out = append(*out, wThread{pc, cp})
	}
}

type RxpSpec struct {
	Name     string
	Props    []string
	Global   string // package-level regexp variable, "gedcom.lineRegexp"
	Language string // W
	File     string
	Pkg      string
}

type rxNode struct {
	wpc     int
	r       vmState
	wEver   []bool
	wEmpty  []bool // per R group: W's marked segment is empty
	prev    rune
	pos     int
	parent  *rxNode
	char    rune
	wEvents map[int]bool
}

type RxpResult struct {
	OK       bool
	States   int
	Word     string
	Reason   string
	Expected []string // W's marked segments for the word (by R group)
	Classes  int
	Err      string
	Pattern  string
}

func decideRxp(pattern, language string) *RxpResult {
	res := &RxpResult{Pattern: pattern}
	rre, err := syntax.Parse(pattern, syntax.Perl)
	if err != nil {
		res.Err = "pattern: " + err.Error()
		return res
	}
	rprog, err := syntax.Compile(rre.Simplify())
	if err != nil {
		res.Err = err.Error()
		return res
	}
	wre, err := syntax.Parse(`\A(?:`+language+`)\z`, syntax.Perl)
	if err != nil {
		res.Err = "language: " + err.Error()
		return res
	}
	wprog, err := syntax.Compile(wre.Simplify())
	if err != nil {
		res.Err = err.Error()
		return res
	}
	// W group index -> R group number (named gK)
	wToR := map[int]int{}
	for idx, name := range wre.CapNames() {
		if strings.HasPrefix(name, "g") {
			var k int
			if _, err := fmt.Sscanf(name, "g%d", &k); err == nil {
				wToR[idx] = k
			}
		}
	}
	nslots := rprog.NumCap
	alpha := rxAlphabet(rprog, wprog)
	res.Classes = len(alpha)
	vm := newPikeVM(rprog)
	if msg := vm.selfCheck(pattern, alpha); msg != "" {
		res.Err = "VM self-check against package regexp failed: " + msg
		return res
	}
	ctx := &rxCtx{}
	fresh := &absCaps{rel: make([]byte, nslots), cur: make([]bool, nslots), empty: make([]bool, nslots/2+1), ctx: ctx}

	key := func(n *rxNode) string {
		var b strings.Builder
		fmt.Fprintf(&b, "%d|%v|", n.wpc, n.r.matched)
		if n.r.matchCap != nil {
			b.WriteString(n.r.matchCap.key())
		}
		b.WriteByte('|')
		for _, t := range n.r.pending {
			fmt.Fprintf(&b, "%d:%s,", t.pc, t.cap.key())
		}
		b.WriteByte('|')
		for _, w := range n.wEver {
			if w {
				b.WriteByte('1')
			} else {
				b.WriteByte('0')
			}
		}
		for _, w := range n.wEmpty {
			if w {
				b.WriteByte('e')
			} else {
				b.WriteByte('.')
			}
		}
		// the empty-width context needs to know what kind of rune came before
		switch {
		case n.prev == eot:
			b.WriteString("|^")
		case n.prev == '\n':
			b.WriteString("|n")
		case syntax.IsWordChar(n.prev):
			b.WriteString("|w")
		default:
			b.WriteString("|o")
		}
		return b.String()
	}
	word := func(n *rxNode) (string, bool) {
		var rs []rune
		for x := n; x != nil && x.parent != nil; x = x.parent {
			if x.char != eot {
				rs = append([]rune{x.char}, rs...)
			}
		}
		return string(rs), true
	}
	_ = word

	start := &rxNode{wpc: wprog.Start, wEver: make([]bool, nslots), wEmpty: make([]bool, nslots/2+1), prev: eot, pos: 0}
	queue := []*rxNode{start}
	seen := map[string]bool{key(start): true}
	const maxStates = 400000
	for len(queue) > 0 {
		n := queue[0]
		queue = queue[1:]
		res.States++
		if res.States > maxStates {
			res.Err = fmt.Sprintf("product larger than %d states", maxStates)
			return res
		}
		choices := append([]rune{eot}, alpha...)
		for _, c := range choices {
			cond := syntax.EmptyOpContext(n.prev, c)
			var wts []wThread
			wClosure(wprog, n.wpc, cond, map[int]bool{}, map[int]bool{}, &wts)
			for _, wt := range wts {
				wi := &wprog.Inst[wt.pc]
				// W must consume c (or accept at the end)
				if c == eot {
					if wi.Op != syntax.InstMatch {
						continue
					}
				} else if wi.Op == syntax.InstMatch || !wi.MatchRune(c) {
					continue
				}
				// W's marks at this position, as R slots
				wNow := map[int]bool{}
				for s := range wt.events {
					if k, ok := wToR[s/2]; ok && 2*k+1 < nslots {
						wNow[2*k+s%2] = true
					}
				}
				// fresh threads know which marks W has emitted before
				f := &absCaps{rel: make([]byte, nslots), cur: make([]bool, nslots), empty: make([]bool, nslots/2+1), ctx: ctx}
				for s := range f.rel {
					if n.wEver[s] {
						f.rel[s] = relW
					}
				}
				_ = fresh
				rst := vm.advance(n.r, n.pos, n.prev, c, f)
				// settle this position's events
				wEver := append([]bool{}, n.wEver...)
				for s := range wNow {
					wEver[s] = true
				}
				nr := vmState{matched: rst.matched}
				if rst.matchCap != nil {
					// a match recorded earlier keeps being compared with W's later marks
					nr.matchCap = rst.matchCap.(*absCaps).settle(wNow, n.wEver)
				}
				for _, t := range rst.pending {
					nr.pending = append(nr.pending, rxThread{t.pc, t.cap.(*absCaps).settle(wNow, n.wEver)})
				}
				wEmpty := append([]bool{}, n.wEmpty...)
				for s := range wNow {
					if s%2 == 1 {
						wEmpty[s/2] = wNow[s-1]
					}
				}
				child := &rxNode{wpc: int(wi.Out), r: nr, wEver: wEver, wEmpty: wEmpty, prev: c, pos: n.pos + 1, parent: n, char: c, wEvents: wNow}
				if c == eot {
					// W accepts the word: R must have matched, with groups on the marks
					w, _ := word(child)
					if !nr.matched {
						res.Word, res.Reason = w, "the pattern does not match this sentence of the language"
						res.Expected = expectedGroups(language, w, nslots/2)
						return res
					}
					mc := nr.matchCap.(*absCaps)
					for g := 1; 2*g+1 < nslots; g++ {
						a, b := mc.rel[2*g], mc.rel[2*g+1]
						wAbsent := (a == relNN || a == relR) && (b == relNN || b == relR)
						rAbsent := (a == relNN || a == relW) && (b == relNN || b == relW)
						ok := (a == relEQ && b == relEQ) || (a == relNN && b == relNN) || (wAbsent && mc.empty[g]) || (rAbsent && child.wEmpty[g])
						if !ok {
							res.Word = w
							res.Reason = fmt.Sprintf("group %d is not the marked segment (open: %s, close: %s)", g, relName(a), relName(b))
							res.Expected = expectedGroups(language, w, nslots/2)
							return res
						}
					}
					continue
				}
				k := key(child)
				if !seen[k] {
					seen[k] = true
					queue = append(queue, child)
				}
			}
		}
	}
	res.OK = true
	return res
}

func relName(r byte) string {
	return [...]string{"unset in both", "marked but not captured", "captured where nothing is marked", "on the mark", "not on the mark"}[r]
}

// expectedGroups: the marked segments of w according to the language (Go's
// own leftmost-first parse of W; informational, for the replay).
func expectedGroups(language, w string, n int) []string {
	re, err := regexp.Compile(`\A(?:` + language + `)\z`)
	if err != nil {
		return nil
	}
	m := re.FindStringSubmatch(w)
	out := make([]string, n)
	if m == nil {
		return out
	}
	for i, name := range re.SubexpNames() {
		var k int
		if _, err := fmt.Sscanf(name, "g%d", &k); err == nil && k < n {
			out[k] = m[i]
		}
	}
	return out
}

// selfCheck compares the VM with package regexp on words over the alphabet.
func (vm *pikeVM) selfCheck(pattern string, alpha []rune) string {
	re, err := regexp.Compile(pattern)
	if err != nil {
		return err.Error()
	}
	rng := rand.New(rand.NewSource(1))
	// favour the runes the pattern mentions
	var pool []rune
	for _, r := range alpha {
		if r < 0x80 && r >= ' ' || r == '\n' || r == '\t' {
			pool = append(pool, r)
		}
	}
	pool = append(pool, alpha...)
	for it := 0; it < 4000; it++ {
		n := rng.Intn(9)
		rs := make([]rune, n)
		for i := range rs {
			rs[i] = pool[rng.Intn(len(pool))]
		}
		s := string(rs)
		want := re.FindStringSubmatchIndex(s)
		got := vm.runConcrete(rs)
		// rune positions -> byte offsets
		if got != nil {
			off := make([]int, len(rs)+1)
			b := 0
			for i, r := range rs {
				off[i] = b
				b += len(string(r))
			}
			off[len(rs)] = b
			for i, p := range got {
				if p >= 0 {
					got[i] = off[p]
				}
			}
		}
		if fmt.Sprint(want) != fmt.Sprint(got) {
			return fmt.Sprintf("on %q: regexp %v, VM %v", s, want, got)
		}
	}
	return ""
}
