package main

// Symbolic values and states.

import (
	"fmt"
	"go/types"
	"sort"
	"strings"

	"golang.org/x/tools/go/ssa"
)

type Val interface{ isVal() }

// SV is a scalar: one SMT term (Int, Bool, Real, Str, Iface, Slice; pointers,
// maps, chans and opaque values are Int).
type SV struct{ T Term }

// StructV is a struct held by value.
type StructV struct {
	Typ types.Type
	F   []Val
}

type TupleV struct{ F []Val }

// ArrV is a fixed-size array with individually tracked elements.
type ArrV struct {
	Elem  types.Type
	Elems []Val
}

// CellPtr points into a local (non-escaping) cell.
type CellPtr struct {
	C    *Cell
	Path []int
}

// HeapPtr is an interior pointer into a heap object: base ref + field path.
type HeapPtr struct {
	Base Term
	Root types.Type // struct type the base ref points to (named)
	Path []int
}

// ElemPtr points at a slice element.
type ElemPtr struct {
	Arr  Term // backing array ref
	Idx  Term
	Elem types.Type
	Path []int // field path inside a struct element
}

// GlobalPtr is the address of a package-level variable.
type GlobalPtr struct {
	G    *ssa.Global
	Path []int
}

// FuncV is a statically known function value (possibly a closure).
type FuncV struct {
	Fn   *ssa.Function
	Free []Val
}

// IfaceV is an interface value whose dynamic type is statically known.
type IfaceV struct {
	Dyn     types.Type
	Payload Val
}

// CellSlice is a slice over a local array cell (varargs pattern).
type CellSlice struct {
	C      *Cell
	Lo, Hi int
}

// Unsupported marks a value the engine could not model; using it poisons
// obligations (they become undecided) but execution continues.
type Opaque struct{ Why string }

func (SV) isVal()        {}
func (StructV) isVal()   {}
func (TupleV) isVal()    {}
func (ArrV) isVal()      {}
func (CellPtr) isVal()   {}
func (HeapPtr) isVal()   {}
func (ElemPtr) isVal()   {}
func (GlobalPtr) isVal() {}
func (FuncV) isVal()     {}
func (IfaceV) isVal()    {}
func (CellSlice) isVal() {}
func (Opaque) isVal()    {}

type Cell struct {
	id   int
	Typ  types.Type
	Name string
}

// State is the mutable part of the symbolic store at a program point.
type State struct {
	heap  map[string]Term
	cells map[*Cell]Val
	ghost map[string]Val
	alloc Term
	defers []deferred
}

type deferred struct {
	flag Term
	fn   Val
	args []Val
	call *ssa.CallCommon
}

func (s *State) clone() *State {
	n := &State{heap: map[string]Term{}, cells: map[*Cell]Val{}, ghost: map[string]Val{}, alloc: s.alloc}
	for k, v := range s.heap {
		n.heap[k] = v
	}
	for k, v := range s.cells {
		n.cells[k] = v
	}
	for k, v := range s.ghost {
		n.ghost[k] = v
	}
	n.defers = append([]deferred{}, s.defers...)
	return n
}

func newState(alloc Term) *State {
	return &State{heap: map[string]Term{}, cells: map[*Cell]Val{}, ghost: map[string]Val{}, alloc: alloc}
}

// ---------------------------------------------------------------------------
// type -> sort

func isExternalStruct(t types.Type) bool {
	n, ok := t.(*types.Named)
	if !ok {
		return false
	}
	if _, ok := n.Underlying().(*types.Struct); !ok {
		return false
	}
	if n.Obj().Pkg() == nil {
		return false
	}
	return !strings.HasPrefix(n.Obj().Pkg().Path(), repoModule)
}

const repoModule = "github.com/elliotchance/gedcom/v39"

func isTimeTime(t types.Type) bool {
	n, ok := t.(*types.Named)
	return ok && n.Obj().Pkg() != nil && n.Obj().Pkg().Path() == "time" && n.Obj().Name() == "Time"
}

// scalarSort returns the SMT sort for types represented by a single term.
func scalarSort(t types.Type) (Sort, bool) {
	if isTimeTime(t) {
		return SInt, true
	}
	switch u := t.Underlying().(type) {
	case *types.Basic:
		switch {
		case u.Info()&types.IsBoolean != 0:
			return SBool, true
		case u.Info()&types.IsInteger != 0:
			return SInt, true
		case u.Info()&types.IsFloat != 0:
			return SReal, true
		case u.Info()&types.IsString != 0:
			return SStr, true
		case u.Kind() == types.UnsafePointer:
			return SInt, true
		case u.Kind() == types.UntypedNil:
			return SInt, true
		}
		return SInt, true
	case *types.Pointer, *types.Map, *types.Chan, *types.Signature:
		return SInt, true
	case *types.Interface:
		return SIface, true
	case *types.Slice:
		return SSlice, true
	case *types.Struct:
		if isExternalStruct(t) {
			return SInt, true // opaque
		}
		return "", false
	case *types.Array:
		return "", false
	case *types.Tuple:
		return "", false
	}
	return SInt, true
}

func typeName(t types.Type) string {
	return types.TypeString(t, func(p *types.Package) string { return p.Name() })
}

// zero value of a type
func (ex *Exec) zeroVal(t types.Type) Val {
	if s, ok := scalarSort(t); ok {
		return SV{zeroTerm(s)}
	}
	switch u := t.Underlying().(type) {
	case *types.Struct:
		fs := make([]Val, u.NumFields())
		for i := range fs {
			fs[i] = ex.zeroVal(u.Field(i).Type())
		}
		return StructV{Typ: t, F: fs}
	case *types.Array:
		if u.Len() <= 64 {
			es := make([]Val, u.Len())
			for i := range es {
				es[i] = ex.zeroVal(u.Elem())
			}
			return ArrV{Elem: u.Elem(), Elems: es}
		}
	case *types.Tuple:
		fs := make([]Val, u.Len())
		for i := range fs {
			fs[i] = ex.zeroVal(u.At(i).Type())
		}
		return TupleV{F: fs}
	}
	return Opaque{"zero of " + t.String()}
}

func zeroTerm(s Sort) Term {
	switch s {
	case SInt:
		return IntLit(0)
	case SBool:
		return tFalse
	case SReal:
		return T(SReal, "0.0")
	case SStr:
		return T(SStr, "str.empty_")
	case SIface:
		return T(SIface, "(mk-iface 0 0)")
	case SSlice:
		return T(SSlice, "(mk-slice 0 0 0 0)")
	}
	return T(s, "0")
}

// freshVal creates an unconstrained symbolic value of a Go type.
func (ex *Exec) freshVal(t types.Type, hint string) Val {
	if s, ok := scalarSort(t); ok {
		c := ex.sc.Fresh(hint, s)
		ex.assumeTypeInv(t, c, tTrue)
		return SV{c}
	}
	switch u := t.Underlying().(type) {
	case *types.Struct:
		fs := make([]Val, u.NumFields())
		for i := range fs {
			fs[i] = ex.freshVal(u.Field(i).Type(), hint+"."+u.Field(i).Name())
		}
		return StructV{Typ: t, F: fs}
	case *types.Array:
		if u.Len() <= 64 {
			es := make([]Val, u.Len())
			for i := range es {
				es[i] = ex.freshVal(u.Elem(), fmt.Sprintf("%s.%d", hint, i))
			}
			return ArrV{Elem: u.Elem(), Elems: es}
		}
	case *types.Tuple:
		fs := make([]Val, u.Len())
		for i := range fs {
			fs[i] = ex.freshVal(u.At(i).Type(), fmt.Sprintf("%s.%d", hint, i))
		}
		return TupleV{F: fs}
	}
	return Opaque{"fresh of " + t.String()}
}

// assumeTypeInv adds the facts every value of the Go type satisfies.
func (ex *Exec) assumeTypeInv(t types.Type, c Term, pc Term) {
	switch u := t.Underlying().(type) {
	case *types.Basic:
		if u.Info()&types.IsUnsigned != 0 {
			ex.sc.Assert(Implies(pc, app(SBool, ">=", c, IntLit(0))))
			switch u.Kind() {
			case types.Uint8:
				ex.sc.Assert(Implies(pc, app(SBool, "<=", c, IntLit(255))))
			case types.Uint16:
				ex.sc.Assert(Implies(pc, app(SBool, "<=", c, IntLit(65535))))
			case types.Uint32:
				ex.sc.Assert(Implies(pc, app(SBool, "<=", c, IntLit(4294967295))))
			}
		} else if u.Info()&types.IsInteger != 0 {
			switch u.Kind() {
			case types.Int8:
				ex.sc.Assert(Implies(pc, And(app(SBool, ">=", c, IntLit(-128)), app(SBool, "<=", c, IntLit(127)))))
			case types.Int32:
				ex.sc.Assert(Implies(pc, And(app(SBool, ">=", c, IntLit(-2147483648)), app(SBool, "<=", c, IntLit(2147483647)))))
			}
		}
	case *types.Pointer, *types.Map, *types.Chan:
		ex.sc.Assert(Implies(pc, app(SBool, ">=", c, IntLit(0))))
	case *types.Slice:
		ex.sc.Assert(Implies(pc, wfSlice(c)))
	case *types.Interface:
		ex.sc.Assert(Implies(pc, And(app(SBool, ">=", app(SInt, "if.tag", c), IntLit(0)),
			Implies(Eq(app(SInt, "if.tag", c), IntLit(0)), Eq(app(SInt, "if.data", c), IntLit(0))))))
	}
}

func wfSlice(c Term) Term {
	arr := app(SInt, "sl.arr", c)
	off := app(SInt, "sl.off", c)
	ln := app(SInt, "sl.len", c)
	cp := app(SInt, "sl.cap", c)
	return And(app(SBool, ">=", arr, IntLit(0)), app(SBool, ">=", off, IntLit(0)), app(SBool, ">=", ln, IntLit(0)),
		app(SBool, ">=", cp, ln), Implies(Eq(arr, IntLit(0)), Eq(cp, IntLit(0))))
}

// ---------------------------------------------------------------------------
// merging

func (ex *Exec) mergeVal(c Term, a, b Val) Val {
	if a == nil {
		return b
	}
	if b == nil {
		return a
	}
	switch x := a.(type) {
	case SV:
		switch y := b.(type) {
		case SV:
			if x.T.Sort != y.T.Sort {
				return Opaque{"merge sort mismatch"}
			}
			return SV{Ite(c, x.T, y.T)}
		case IfaceV:
			return SV{Ite(c, x.T, ex.ifaceTerm(y))}
		case CellSlice:
			return Opaque{"merge cellslice"}
		}
	case IfaceV:
		switch y := b.(type) {
		case IfaceV:
			if types.Identical(x.Dyn, y.Dyn) {
				return IfaceV{Dyn: x.Dyn, Payload: ex.mergeVal(c, x.Payload, y.Payload)}
			}
			return SV{Ite(c, ex.ifaceTerm(x), ex.ifaceTerm(y))}
		case SV:
			return SV{Ite(c, ex.ifaceTerm(x), y.T)}
		}
	case StructV:
		if y, ok := b.(StructV); ok && len(x.F) == len(y.F) {
			fs := make([]Val, len(x.F))
			for i := range fs {
				fs[i] = ex.mergeVal(c, x.F[i], y.F[i])
			}
			return StructV{Typ: x.Typ, F: fs}
		}
	case TupleV:
		if y, ok := b.(TupleV); ok && len(x.F) == len(y.F) {
			fs := make([]Val, len(x.F))
			for i := range fs {
				fs[i] = ex.mergeVal(c, x.F[i], y.F[i])
			}
			return TupleV{F: fs}
		}
	case ArrV:
		if y, ok := b.(ArrV); ok && len(x.Elems) == len(y.Elems) {
			es := make([]Val, len(x.Elems))
			for i := range es {
				es[i] = ex.mergeVal(c, x.Elems[i], y.Elems[i])
			}
			return ArrV{Elem: x.Elem, Elems: es}
		}
	case CellPtr:
		if y, ok := b.(CellPtr); ok && x.C == y.C && pathEq(x.Path, y.Path) {
			return x
		}
	case HeapPtr:
		if y, ok := b.(HeapPtr); ok && pathEq(x.Path, y.Path) && types.Identical(x.Root, y.Root) {
			return HeapPtr{Base: Ite(c, x.Base, y.Base), Root: x.Root, Path: x.Path}
		}
	case GlobalPtr:
		if y, ok := b.(GlobalPtr); ok && x.G == y.G && pathEq(x.Path, y.Path) {
			return x
		}
	case FuncV:
		if y, ok := b.(FuncV); ok && x.Fn == y.Fn && len(x.Free) == len(y.Free) {
			fs := make([]Val, len(x.Free))
			for i := range fs {
				fs[i] = ex.mergeVal(c, x.Free[i], y.Free[i])
			}
			return FuncV{Fn: x.Fn, Free: fs}
		}
	case CellSlice:
		if y, ok := b.(CellSlice); ok && x == y {
			return x
		}
	case ElemPtr:
		if y, ok := b.(ElemPtr); ok {
			return ElemPtr{Arr: Ite(c, x.Arr, y.Arr), Idx: Ite(c, x.Idx, y.Idx), Elem: x.Elem, Path: x.Path}
		}
	case Opaque:
		return x
	}
	if o, ok := b.(Opaque); ok {
		return o
	}
	return Opaque{fmt.Sprintf("merge %T/%T", a, b)}
}

func pathEq(a, b []int) bool {
	if len(a) != len(b) {
		return false
	}
	for i := range a {
		if a[i] != b[i] {
			return false
		}
	}
	return true
}

type incoming struct {
	cond Term
	st   *State
}

// mergeStates merges predecessor exit states; conds are the edge conditions
// (pairwise exclusive in a deterministic program).
func (ex *Exec) mergeStates(ins []incoming) *State {
	if len(ins) == 1 {
		return ins[0].st.clone()
	}
	res := ins[len(ins)-1].st.clone()
	for i := len(ins) - 2; i >= 0; i-- {
		c := ins[i].cond
		o := ins[i].st
		// heap
		keys := map[string]bool{}
		for k := range res.heap {
			keys[k] = true
		}
		for k := range o.heap {
			keys[k] = true
		}
		ks := make([]string, 0, len(keys))
		for k := range keys {
			ks = append(ks, k)
		}
		sort.Strings(ks)
		for _, k := range ks {
			a, aok := o.heap[k]
			b, bok := res.heap[k]
			if !aok {
				a = ex.heapInit(k, b.Sort)
			}
			if !bok {
				b = ex.heapInit(k, a.Sort)
			}
			if a.S != b.S {
				res.heap[k] = ex.sc.Name("m."+k, Ite(c, a, b))
			}
		}
		for cell, av := range o.cells {
			if bv, ok := res.cells[cell]; ok {
				res.cells[cell] = ex.mergeVal(c, av, bv)
			} else {
				res.cells[cell] = av
			}
		}
		for g, av := range o.ghost {
			if bv, ok := res.ghost[g]; ok {
				res.ghost[g] = ex.mergeVal(c, av, bv)
			} else {
				res.ghost[g] = av
			}
		}
		if o.alloc.S != res.alloc.S {
			res.alloc = ex.sc.Name("alloc", Ite(c, o.alloc, res.alloc))
		}
		// defers: keep the longer list with merged flags (same program => same order)
		if len(o.defers) > len(res.defers) {
			nd := append([]deferred{}, o.defers...)
			for j := range nd {
				if j < len(res.defers) {
					nd[j].flag = Ite(c, o.defers[j].flag, res.defers[j].flag)
				} else {
					nd[j].flag = And(c, o.defers[j].flag)
				}
			}
			res.defers = nd
		} else {
			for j := range res.defers {
				if j < len(o.defers) {
					res.defers[j].flag = Ite(c, o.defers[j].flag, res.defers[j].flag)
				} else {
					res.defers[j].flag = And(Not(c), res.defers[j].flag)
				}
			}
		}
	}
	return res
}
