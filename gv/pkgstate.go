package main

// Package-state check (C19: "identical across earlier publishing in the same
// process"): the package-level variables of the publishing packages are
// init-only. For every variable one obligation: it is not stored to outside
// init, no map update or delete goes through a value loaded from it, and no
// value loaded from it is handed to a callee whose (frame-engine) summary
// writes that argument's object. Variables the contract file lists under
// `package-state ... allows` are caches keyed by object identity.

import (
	"fmt"
	"go/types"
	"sort"
	"strings"

	"golang.org/x/tools/go/ssa"
)

type PkgStateSpec struct {
	Pkg    string
	Props  []string
	Allows []string
	File   string
}

func (ctx *checkCtx) runPkgState() *JobResult {
	var specs []*PkgStateSpec
	for _, s := range ctx.cs.PkgStates {
		if hasProp(s.Props, ctx.prop) {
			specs = append(specs, s)
		}
	}
	if len(specs) == 0 {
		return nil
	}
	jr := &JobResult{}
	fa := NewFrameAnalysis(ctx.ld)
	for _, spec := range specs {
		var pkg *ssa.Package
		for _, p := range ctx.ld.SPkgs {
			if p != nil && p.Pkg.Name() == spec.Pkg && strings.HasPrefix(p.Pkg.Path(), repoModule) {
				pkg = p
			}
		}
		if pkg == nil {
			jr.Errors = append(jr.Errors, "package-state: no package "+spec.Pkg)
			continue
		}
		initFn := pkg.Func("init")
		bad := map[*ssa.Global][]string{}
		var globals []*ssa.Global
		for _, m := range pkg.Members {
			if g, ok := m.(*ssa.Global); ok && g.Object() != nil {
				globals = append(globals, g)
			}
		}
		sort.Slice(globals, func(i, j int) bool { return globals[i].Name() < globals[j].Name() })
		fromGlobal := func(v ssa.Value) *ssa.Global {
			for i := 0; i < 4; i++ {
				switch x := v.(type) {
				case *ssa.Global:
					if x.Pkg == pkg {
						return x
					}
					return nil
				case *ssa.UnOp:
					v = x.X
				case *ssa.FieldAddr:
					v = x.X
				case *ssa.IndexAddr:
					v = x.X
				case *ssa.MakeInterface:
					v = x.X
				case *ssa.ChangeType:
					v = x.X
				default:
					return nil
				}
			}
			return nil
		}
		for _, fn := range ctx.ld.AllFns {
			if fn == initFn || len(fn.Blocks) == 0 || !inRepo(fn) {
				continue
			}
			for _, b := range fn.Blocks {
				for _, in := range b.Instrs {
					switch x := in.(type) {
					case *ssa.Store:
						if g := fromGlobal(x.Addr); g != nil {
							bad[g] = append(bad[g], fmt.Sprintf("stored to in %s (%s)", funcKey(fn), ctx.ld.posString(x.Pos())))
						}
					case *ssa.MapUpdate:
						if g := fromGlobal(x.Map); g != nil {
							bad[g] = append(bad[g], fmt.Sprintf("map updated in %s (%s)", funcKey(fn), ctx.ld.posString(x.Pos())))
						}
					case ssa.CallInstruction:
						cm := x.Common()
						if bi, ok := cm.Value.(*ssa.Builtin); ok {
							if bi.Name() == "delete" || bi.Name() == "append" || bi.Name() == "copy" {
								if g := fromGlobal(cm.Args[0]); g != nil && bi.Name() != "append" {
									bad[g] = append(bad[g], fmt.Sprintf("%s in %s", bi.Name(), funcKey(fn)))
								}
							}
							continue
						}
						var args []ssa.Value
						if cm.IsInvoke() {
							args = append([]ssa.Value{cm.Value}, cm.Args...)
						} else {
							args = cm.Args
						}
						for i, a := range args {
							g := fromGlobal(a)
							if g == nil {
								continue
							}
							// does the callee write the object it is given?
							var callee *ssa.Function
							if !cm.IsInvoke() {
								callee, _ = cm.Value.(*ssa.Function)
							}
							if callee == nil {
								bad[g] = append(bad[g], fmt.Sprintf("passed to a dynamic call in %s (%s)", funcKey(fn), ctx.ld.posString(x.Pos())))
								continue
							}
							sum := fa.Summarise(callee, nil)
							for k := range sum.Writes {
								if k.Obj.Region == i {
									bad[g] = append(bad[g], fmt.Sprintf("modified by %s called from %s (%s): writes %s", funcKey(callee), funcKey(fn), ctx.ld.posString(x.Pos()), k.Field))
									break
								}
							}
						}
					}
				}
			}
		}
		for _, g := range globals {
			// immutable kinds need no obligation: constants folded by the compiler are not Globals
			name := fmt.Sprintf("%s#package-state:%s", spec.Pkg, g.Name())
			allowed := false
			for _, a := range spec.Allows {
				if a == g.Name() {
					allowed = true
				}
			}
			rec := &ObRecord{Name: name, Kind: "package-state", Fn: spec.Pkg, Status: "proved", Backend: "frame", Decisive: true}
			if why := bad[g]; len(why) > 0 && !allowed {
				sort.Strings(why)
				rec.Status = "refuted"
				rec.Detail = fmt.Sprintf("package-level variable %s.%s (%s) is process-wide mutable state: %s", spec.Pkg, g.Name(), types.TypeString(g.Type().(*types.Pointer).Elem(), nil), strings.Join(why, "; "))
				if k := knownFor(name); k != nil && k.Property == ctx.prop {
					rec.Kind = "known-site"
					rec.Known = k.What
					rec.KnownProp = k.Property
				}
			}
			jr.Records = append(jr.Records, rec)
		}
		jr.Functions = append(jr.Functions, "package "+spec.Pkg+" (package-level variables)")
	}
	jr.Assumed = append(jr.Assumed, "package-state: a package-level variable is only modified through values loaded directly from it (not through copies kept in struct fields)")
	return jr
}
