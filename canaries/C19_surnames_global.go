// gv-replay-dir: html
// Canary for C19: the surname set was cached in a package-level variable, so
// publishing document B after document A in one process showed A's surnames.
package html

import (
	"bytes"
	"fmt"
	"strings"
	"testing"

	"github.com/elliotchance/gedcom/v39"
	"github.com/elliotchance/gedcom/v39/html/core"
)

type gvMemWriter2 struct{ files map[string]string }

func (m *gvMemWriter2) WriteFile(file *core.File) error {
	var b bytes.Buffer
	file.Component.WriteHTMLTo(&b)
	m.files[file.Name] = b.String()
	return nil
}

func gvPublish(src string) map[string]string {
	doc, _ := gedcom.NewDocumentFromString(src)
	options := &PublishShowOptions{ShowSurnames: true, ShowIndividuals: true, LivingVisibility: LivingVisibilityShow}
	w := &gvMemWriter2{files: map[string]string{}}
	func() {
		defer func() { recover() }()
		NewPublisher(doc, options).Publish(w, 1)
	}()
	return w.files
}

func TestGvReplay(t *testing.T) {
	gvPublish("0 @I1@ INDI\n1 NAME Anna /Alphaqq/\n1 DEAT\n2 DATE 1 Jan 1850\n")
	second := gvPublish("0 @I1@ INDI\n1 NAME Bert /Betazz/\n1 DEAT\n2 DATE 1 Jan 1850\n")
	page := second["surnames.html"]
	if strings.Contains(page, "Alphaqq") || !strings.Contains(page, "Betazz") {
		fmt.Println("GV-REPLAY: VIOLATED surnames.html of the second document shows the first document's surnames")
		return
	}
	fmt.Println("GV-REPLAY: HOLDS")
}
