// gv-replay-dir: .
// Canary for C10: a family that both documents have (same pointer) gains a HUSB / WIFE / CHIL line on the right-hand side - the most ordinary edit between two versions of a file. MergeNodes copies the unmatched role line with DeepCopy, which knows a family only when the ROOT it copies is one: the role node constructor panics ("cannot create Child without a family").
package gedcom

import (
	"fmt"
	"testing"
)

func TestGvReplay(t *testing.T) {
	base := "0 HEAD\n0 @I1@ INDI\n1 NAME John /Smith/\n1 SEX M\n1 BIRT\n2 DATE 3 SEP 1943\n1 FAMS @F1@\n0 @I2@ INDI\n1 NAME Mary /Jones/\n1 SEX F\n1 BIRT\n2 DATE 5 MAY 1945\n1 FAMS @F1@\n"
	left, _ := NewDocumentFromString(base + "0 @F1@ FAM\n1 HUSB @I1@\n1 WIFE @I2@\n0 TRLR\n")
	right, _ := NewDocumentFromString(base + "0 @I3@ INDI\n1 NAME Bob /Smith/\n1 SEX M\n1 BIRT\n2 DATE 1 JAN 1970\n1 FAMC @F1@\n0 @F1@ FAM\n1 HUSB @I1@\n1 WIFE @I2@\n1 CHIL @I3@\n0 TRLR\n")
	crashed := func() (r interface{}) {
		defer func() { r = recover() }()
		out, err := MergeDocumentsAndIndividuals(left, right, EqualityMergeFunction, NewIndividualNodesCompareOptions())
		if err != nil || out == nil {
			return fmt.Sprint("no document: ", err)
		}
		for _, f := range out.Families() {
			if f.Pointer() == "F1" && len(f.Children()) == 1 {
				return nil
			}
		}
		return "the merged family F1 does not have the child the right-hand side added"
	}()
	if crashed != nil {
		fmt.Printf("GV-REPLAY: VIOLATED merging a family that gained a child: %v\n", crashed)
		return
	}
	fmt.Println("GV-REPLAY: HOLDS")
}
