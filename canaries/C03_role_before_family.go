// gv-replay-dir: .
// Canary for C03 (known finding): a family-role line before any FAM record panics the decoder.
package gedcom

import (
	"fmt"
	"strings"
	"testing"
)

func TestGvReplay(t *testing.T) {
	defer func() {
		if r := recover(); r != nil {
			fmt.Printf("GV-REPLAY: VIOLATED decoder panicked: %v\n", r)
		}
	}()
	_, err := NewDecoder(strings.NewReader("0 HUSB @I1@\n")).Decode()
	fmt.Println("GV-REPLAY: HOLDS", err)
}
