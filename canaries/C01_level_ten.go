// gv-replay-dir: .
// Canary for C01 (fixed): a line at level 10 or deeper is written as "10 TAG", which the one-digit level pattern could not read back.
package gedcom

import (
	"fmt"
	"testing"
)

func TestGvReplay(t *testing.T) {
	defer func() {
		if r := recover(); r != nil {
			fmt.Printf("GV-REPLAY: VIOLATED panicked: %v\n", r)
		}
	}()
	// a chain of 12 nested nodes
	root := NewNode(TagFromString("L0"), "", "")
	cur := root
	for i := 1; i <= 11; i++ {
		child := NewNode(TagFromString(fmt.Sprintf("L%d", i)), fmt.Sprintf("v%d", i), "")
		cur.AddNode(child)
		cur = child
	}
	doc := NewDocumentWithNodes(Nodes{root})
	text := doc.String()
	back, err := NewDocumentFromString(text)
	if err != nil {
		fmt.Printf("GV-REPLAY: VIOLATED the decoder rejects what the encoder wrote: %v\n", err)
		return
	}
	if back.String() != text {
		fmt.Printf("GV-REPLAY: VIOLATED round trip differs:\n%s\n---\n%s\n", text, back.String())
		return
	}
	fmt.Println("GV-REPLAY: HOLDS")
}
