// gv-replay-dir: .
// Canary for C10/C09 (fixed): an individual that exists in only one input was carried over as the input object itself: it still belonged to the input document and changes to the merged document showed through.
package gedcom

import (
	"fmt"
	"testing"
)

func TestGvReplay(t *testing.T) {
	defer func() {
		if r := recover(); r != nil {
			fmt.Printf("GV-REPLAY: VIOLATED panicked: %v\n", r)
		}
	}()
	left, _ := NewDocumentFromString("0 @I1@ INDI\n1 NAME Alpha /Beta/\n1 BIRT\n2 DATE 1 Jan 1900\n")
	right, _ := NewDocumentFromString("0 @I2@ INDI\n1 NAME Xi /Ypsilon/\n1 BIRT\n2 DATE 3 Mar 1800\n")
	before := left.String() + right.String()
	merged, err := MergeDocumentsAndIndividuals(left, right, EqualityMergeFunction, NewIndividualNodesCompareOptions())
	if err != nil {
		fmt.Println("GV-REPLAY: PRECONDITION-NOT-MET", err)
		return
	}
	for _, individual := range merged.Individuals() {
		if individual.Document() != merged {
			fmt.Printf("GV-REPLAY: VIOLATED %s in the merged document still belongs to an input document\n", individual.Pointer())
			return
		}
		individual.AddName("Changed /After/")
	}
	if after := left.String() + right.String(); after != before {
		fmt.Println("GV-REPLAY: VIOLATED changing the merged document changed an input document")
		return
	}
	fmt.Println("GV-REPLAY: HOLDS")
}
