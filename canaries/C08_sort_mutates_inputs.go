// gv-replay-dir: .
// Canary for C08 (known finding): NodeDiff.Sort appends children to the compared trees.
package gedcom

import (
	"fmt"
	"testing"
)

func TestGvReplay(t *testing.T) {
	left := NewNode(TagEvent, "", "", NewNode(TagType, "b", "", NewNode(TagNote, "n1", "")), NewNode(TagType, "a", "", NewNode(TagNote, "n2", "")))
	right := NewNode(TagEvent, "", "", NewNode(TagType, "a", "", NewNode(TagNote, "n2", "")))
	before := GEDCOMString(left, 0) + "|" + GEDCOMString(right, 0)
	d := CompareNodes(left, right)
	d.Sort()
	after := GEDCOMString(left, 0) + "|" + GEDCOMString(right, 0)
	if before != after {
		fmt.Printf("GV-REPLAY: VIOLATED inputs changed by Sort:\n%s\n---\n%s\n", before, after)
		return
	}
	fmt.Println("GV-REPLAY: HOLDS")
}
