// gv-replay-dir: html
// Canary for C17 (known finding): in placeholder mode the index letters are taken from the surnames of living individuals too: a letter page exists only because a living person's surname starts with it.
package html

import (
	"fmt"
	"testing"

	"github.com/elliotchance/gedcom/v39"
)

func TestGvReplay(t *testing.T) {
	doc, _ := gedcom.NewDocumentFromString("0 @I1@ INDI\n1 NAME Old /Timer/\n1 BIRT\n2 DATE 1 Jan 1800\n1 DEAT\n2 DATE 1 Jan 1870\n0 @I2@ INDI\n1 NAME Alive /Zulu/\n1 BIRT\n2 DATE 3 Mar 2010\n")
	options := &PublishShowOptions{ShowIndividuals: true, LivingVisibility: LivingVisibilityPlaceholder}
	for file := range NewPublisher(doc, options).Files(1) {
		if file.Name == "individuals-z.html" {
			fmt.Println("GV-REPLAY: VIOLATED individuals-z.html is published although only a living individual's surname starts with z")
			return
		}
	}
	fmt.Println("GV-REPLAY: HOLDS")
}
