// gv-replay-dir: .
// gv-replay-race: true
// Canary for C11 (known findings): IndividualNodes.Compare with several jobs
// fills the lazy caches (Document.families, IndividualNode.families/spouses,
// FamilyNode.husband/wife, DateNode.parsedDateRange) from concurrent workers
// without synchronisation. Run under the race detector.
package gedcom

import (
	"fmt"
	"strings"
	"testing"
)

func TestGvReplay(t *testing.T) {
	var b strings.Builder
	for i := 1; i <= 40; i++ {
		fmt.Fprintf(&b, "0 @I%d@ INDI\n1 NAME Person%d /Fam%d/\n1 BIRT\n2 DATE %d Jan %d\n1 FAMS @F%d@\n", i, i, i%7, 1+i%27, 1800+i, (i+1)/2)
	}
	for f := 1; f <= 20; f++ {
		fmt.Fprintf(&b, "0 @F%d@ FAM\n1 HUSB @I%d@\n1 WIFE @I%d@\n", f, 2*f-1, 2*f)
	}
	left, _ := NewDocumentFromString(b.String())
	right, _ := NewDocumentFromString(b.String())
	options := NewIndividualNodesCompareOptions()
	options.Jobs = 8
	res := left.Individuals().Compare(right.Individuals(), options)
	fmt.Println("GV-REPLAY: HOLDS (no race reported in-process; results:", len(res), ")")
}
