// gv-replay-dir: .
// Canary for C09: MergeNodes used to insert unmatched children of the right
// input by reference, so changing the merged result changed the right input.
package gedcom

import (
	"fmt"
	"testing"
)

func TestGvReplay(t *testing.T) {
	doc := NewDocument()
	left := NewNode(TagEvent, "", "", NewNode(TagType, "x", ""))
	right := NewNode(TagEvent, "", "", NewNode(TagBirth, "", "", NewNode(TagPlace, "Sydney", "")))
	before := GEDCOMString(right, 0)
	merged, err := MergeNodes(left, right, doc)
	if err != nil {
		fmt.Println("GV-REPLAY: HOLDS (error)", err)
		return
	}
	// mutate the subtree that came from the right input
	for _, n := range merged.Nodes() {
		if n.Tag().Is(TagBirth) {
			n.AddNode(NewNode(TagNote, "added to the merge result only", ""))
		}
	}
	after := GEDCOMString(right, 0)
	if before != after {
		fmt.Printf("GV-REPLAY: VIOLATED right input changed after mutating the merge result:\n%s\n---\n%s\n", before, after)
		return
	}
	fmt.Println("GV-REPLAY: HOLDS")
}
