// gv-replay-dir: q
// Canary for C15 (fixed): queries that used to panic the evaluator.
package q

import (
	"fmt"
	"testing"

	"github.com/elliotchance/gedcom/v39"
)

func TestGvReplay(t *testing.T) {
	doc, _ := gedcom.NewDocumentFromString("0 @I1@ INDI\n1 NAME A /B/\n0 @I2@ INDI\n")
	bad := 0
	for _, query := range []string{`.Individuals | First("-1")`, `.Individuals | Last("-1")`, `Combine | ?`,
		`.Individuals | Combine(.Foo)`, `.Individuals | .Foo`, `.Nodes | First(1) | .Nodes`, `.Nodes | .Nodes`} {
		func() {
			defer func() {
				if r := recover(); r != nil {
					fmt.Printf("GV-REPLAY: VIOLATED %q panicked: %v\n", query, r)
					bad++
				}
			}()
			engine, err := NewParser().ParseString(query)
			if err != nil {
				return
			}
			engine.Evaluate([]*gedcom.Document{doc})
		}()
	}
	if bad == 0 {
		fmt.Println("GV-REPLAY: HOLDS")
	}
}
