// gv-replay-dir: .
// Canary for C14 (fixed): an empty HUSB value panics the husband lookup (valueToPointer indexes the empty string).
package gedcom

import (
	"fmt"
	"testing"
)

func TestGvReplay(t *testing.T) {
	defer func() {
		if r := recover(); r != nil {
			fmt.Printf("GV-REPLAY: VIOLATED panicked: %v\n", r)
		}
	}()
	doc, err := NewDocumentFromString("0 @I1@ INDI\n0 @F1@ FAM\n1 HUSB\n")
	if err != nil {
		fmt.Println("GV-REPLAY: PRECONDITION-NOT-MET", err)
		return
	}
	for _, family := range doc.Families() {
		_ = family.Husband().Individual()
	}
	fmt.Println("GV-REPLAY: HOLDS")
}
