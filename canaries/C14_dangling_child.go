// gv-replay-dir: .
// Canary for C14 (fixed): a CHIL that points at a missing record panics ChildNodes.Individuals / ByPointer.
package gedcom

import (
	"fmt"
	"testing"
)

func TestGvReplay(t *testing.T) {
	defer func() {
		if r := recover(); r != nil {
			fmt.Printf("GV-REPLAY: VIOLATED panicked: %v\n", r)
		}
	}()
	doc, err := NewDocumentFromString("0 @I1@ INDI\n0 @F1@ FAM\n1 CHIL @I9@\n")
	if err != nil {
		fmt.Println("GV-REPLAY: PRECONDITION-NOT-MET", err)
		return
	}
	for _, family := range doc.Families() {
		_ = family.Children().Individuals(); _ = family.Children().ByPointer("I1")
	}
	fmt.Println("GV-REPLAY: HOLDS")
}
