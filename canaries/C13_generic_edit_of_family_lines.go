// gv-replay-dir: .
// Canary for C13 (b) (KNOWN, not repaired): a family's HUSB / WIFE / CHIL lines edited through the generic DeleteNode / AddNode / SetNodes of the embedded SimpleNode leave the family's cached husband / wife and the individuals' cached families stale.
package gedcom

import (
	"fmt"
	"testing"
)

func TestGvReplay(t *testing.T) {
	doc := NewDocument()
	a := doc.AddIndividual("A")
	f := doc.AddFamily("F")
	f.SetHusband(a)
	h := f.Husband() // warms the family's cache
	_ = a.Families() // warms the individual's cache
	f.DeleteNode(h)  // generic edit: removes the HUSB line
	fresh, _ := NewDocumentFromString(doc.String())
	if (f.Husband() == nil) != (fresh.Families()[0].Husband() == nil) {
		fmt.Printf("GV-REPLAY: VIOLATED after f.DeleteNode(HUSB line) f.Husband() is nil: %v, in a fresh decode of the text: %v\n", f.Husband() == nil, fresh.Families()[0].Husband() == nil)
		return
	}
	if len(a.Families()) != len(fresh.Individuals()[0].Families()) {
		fmt.Printf("GV-REPLAY: VIOLATED after f.DeleteNode(HUSB line) A remembers %d families, a fresh decode has %d\n", len(a.Families()), len(fresh.Individuals()[0].Families()))
		return
	}
	fmt.Println("GV-REPLAY: HOLDS")
}
