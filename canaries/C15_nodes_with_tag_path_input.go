// gv-replay-dir: q
// Canary for C15 (fixed): NodesWithTagPath() crashed the query engine on input that is not a node (a number, a string, the document itself).
package q

import (
	"fmt"
	"testing"

	"github.com/elliotchance/gedcom/v39"
)

func TestGvReplay(t *testing.T) {
	doc, _ := gedcom.NewDocumentFromString("0 @I1@ INDI\n1 NAME John /Smith/\n0 @I2@ INDI\n1 NAME Jane /Doe/\n")
	for _, q := range []string{`Length | NodesWithTagPath("NAME")`, `.Individuals | .Name | .String | NodesWithTagPath("NAME")`, `NodesWithTagPath("NAME")`, `? | NodesWithTagPath("NAME")`, `"a" | NodesWithTagPath("X")`, `.Individuals | NodesWithTagPath("NAME")`} {
		crashed := func() (r interface{}) {
			defer func() { r = recover() }()
			engine, err := NewParser().ParseString(q)
			if err != nil {
				return nil
			}
			_, _ = engine.Evaluate([]*gedcom.Document{doc})
			return nil
		}()
		if crashed != nil {
			fmt.Printf("GV-REPLAY: VIOLATED the query %q panics: %v\n", q, crashed)
			return
		}
	}
	fmt.Println("GV-REPLAY: HOLDS")
}
