// gv-replay-dir: .
// Canary for C13 (b): after DeleteNode / SetNodes the children-by-tag view (NodesWithTag, warm cache) still returned the removed nodes.
package gedcom

import (
	"fmt"
	"testing"
)

func TestGvReplay(t *testing.T) {
	doc := NewDocument()
	indi := doc.AddIndividual("P1")
	name := NewNameNode("John /Smith/")
	indi.AddNode(name)
	_ = NodesWithTag(indi, TagName) // the first call only creates the cache entry,
	if got := len(NodesWithTag(indi, TagName)); got != 1 { // the second fills it
		fmt.Printf("GV-REPLAY: VIOLATED setup: %d names\n", got)
		return
	}
	indi.DeleteNode(name)
	if got := len(NodesWithTag(indi, TagName)); got != 0 {
		fmt.Printf("GV-REPLAY: VIOLATED after DeleteNode the NAME view still has %d node(s); text:\n%s", got, doc.String())
		return
	}
	indi.AddNode(name)
	_ = NodesWithTag(indi, TagName)
	_ = NodesWithTag(indi, TagName)
	indi.SetNodes(nil)
	if got := len(NodesWithTag(indi, TagName)); got != 0 {
		fmt.Printf("GV-REPLAY: VIOLATED after SetNodes(nil) the NAME view still has %d node(s)\n", got)
		return
	}
	fmt.Println("GV-REPLAY: HOLDS")
}
