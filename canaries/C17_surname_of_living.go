// gv-replay-dir: html
// Canary for C17 (fixed): the surname of a hidden living individual was listed on the surnames page.
package html

import (
	"bytes"
	"fmt"
	"strings"
	"testing"

	"github.com/elliotchance/gedcom/v39"
)

func TestGvReplay(t *testing.T) {
	defer func() {
		if r := recover(); r != nil {
			fmt.Printf("GV-REPLAY: VIOLATED panicked: %v\n", r)
		}
	}()
	doc, _ := gedcom.NewDocumentFromString("0 @I1@ INDI\n1 NAME Old /Timer/\n1 BIRT\n2 DATE 1 Jan 1800\n2 PLAC Oldtown\n1 DEAT\n2 DATE 1 Jan 1870\n0 @I2@ INDI\n1 NAME Alive /Zzyzxsurname/\n1 BIRT\n2 DATE 3 Mar 2010\n2 PLAC Secretville\n")
	options := &PublishShowOptions{ShowIndividuals: true, ShowPlaces: true, ShowFamilies: true, ShowSurnames: true,
		ShowSources: true, ShowStatistics: true, LivingVisibility: LivingVisibilityHide}
	for file := range NewPublisher(doc, options).Files(1) {
		var buf bytes.Buffer
		file.Component.WriteHTMLTo(&buf)
		if strings.Contains(strings.ToLower(file.Name+buf.String()), "zzyzxsurname") {
			fmt.Printf("GV-REPLAY: VIOLATED %q of a hidden living individual is published (file %s)\n", "zzyzxsurname", file.Name)
			return
		}
	}
	fmt.Println("GV-REPLAY: HOLDS")
}
