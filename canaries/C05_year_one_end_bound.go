// gv-replay-dir: .
// Canary for C05 (fixed): the end bound of '1 Jan 0001', 'Jan 0001' and '0001' was equal to its start bound (the zero time was taken for a parse failure).
package gedcom

import (
	"fmt"
	"testing"
	"time"
)

func TestGvReplay(t *testing.T) {
	for _, c := range []struct {
		s    string
		days int
	}{{"1 Jan 0001", 1}, {"Jan 0001", 31}, {"0001", 365}, {"1 Jan 0002", 1}, {"Feb 2000", 29}} {
		r := NewDateRangeWithString(c.s)
		start, end := r.StartDate().Time(), r.EndDate().Time()
		want := time.Duration(c.days)*24*time.Hour - time.Nanosecond
		if end.Sub(start) != want {
			fmt.Printf("GV-REPLAY: VIOLATED %q: start %v end %v, the period should be %d days long\n", c.s, start, end, c.days)
			return
		}
	}
	fmt.Println("GV-REPLAY: HOLDS")
}
