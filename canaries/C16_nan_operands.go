// gv-replay-dir: q
// Canary for C16 (fixed): operands spelled like the float64 value NaN were compared as numbers: "NaN" = "NaN" was false and neither < nor > held.
package q

import (
	"fmt"
	"testing"
)

func TestGvReplay(t *testing.T) {
	for _, pair := range [][2]string{{"NaN", "NaN"}, {"nan", "1"}, {"NaN", "abc"}, {"Inf", "Inf"}, {"2", "10"}, {"b", "a"}} {
		eq, _ := equal(pair[0], pair[1])
		ne, _ := notEqual(pair[0], pair[1])
		lt, _ := lessThan(pair[0], pair[1])
		gt, _ := greaterThan(pair[0], pair[1])
		n := 0
		for _, b := range []bool{eq, lt, gt} {
			if b {
				n++
			}
		}
		if n != 1 || ne == eq {
			fmt.Printf("GV-REPLAY: VIOLATED %q ? %q: = %v, != %v, < %v, > %v (exactly one of <, =, > must hold, != must negate =)\n", pair[0], pair[1], eq, ne, lt, gt)
			return
		}
	}
	fmt.Println("GV-REPLAY: HOLDS")
}
