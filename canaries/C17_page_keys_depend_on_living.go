// gv-replay-dir: html
// Canary for C17 (fixed): with living individuals hidden, the file name of a dead person's page depended on the name of a living person (the unique-key suffix).
package html

import (
	"fmt"
	"strings"
	"testing"

	"github.com/elliotchance/gedcom/v39"
)

func gvFiles(text string) string {
	doc, _ := gedcom.NewDocumentFromString(text)
	options := &PublishShowOptions{ShowIndividuals: true, LivingVisibility: LivingVisibilityHide}
	var names []string
	for file := range NewPublisher(doc, options).Files(1) {
		names = append(names, file.Name)
	}
	return strings.Join(names, " ")
}

func TestGvReplay(t *testing.T) {
	defer func() {
		if r := recover(); r != nil {
			fmt.Printf("GV-REPLAY: VIOLATED panicked: %v\n", r)
		}
	}()
	dead := "0 @I2@ INDI\n1 NAME Elliot /Chance/\n1 BIRT\n2 DATE 1 Jan 1800\n1 DEAT\n2 DATE 1 Jan 1870\n"
	a := gvFiles("0 @I1@ INDI\n1 NAME Elliot /Chance/\n1 BIRT\n2 DATE 1 Jan 2015\n" + dead)
	b := gvFiles("0 @I1@ INDI\n1 NAME Somebody /Else/\n1 BIRT\n2 DATE 1 Jan 2015\n" + dead)
	if a != b {
		fmt.Printf("GV-REPLAY: VIOLATED the hidden living person's name changes the published file names: %q vs %q\n", a, b)
		return
	}
	fmt.Println("GV-REPLAY: HOLDS", a)
}
