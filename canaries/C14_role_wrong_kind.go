// gv-replay-dir: .
// Canary for C14 (fixed): a HUSB that points at a family record panics the husband lookup (unchecked type assertion).
package gedcom

import (
	"fmt"
	"testing"
)

func TestGvReplay(t *testing.T) {
	defer func() {
		if r := recover(); r != nil {
			fmt.Printf("GV-REPLAY: VIOLATED panicked: %v\n", r)
		}
	}()
	doc, err := NewDocumentFromString("0 @I1@ INDI\n0 @F1@ FAM\n1 HUSB @F1@\n")
	if err != nil {
		fmt.Println("GV-REPLAY: PRECONDITION-NOT-MET", err)
		return
	}
	for _, family := range doc.Families() {
		_ = family.Husband().Individual()
	}
	fmt.Println("GV-REPLAY: HOLDS")
}
