// gv-replay-dir: .
// Canary for C20 (fixed): a warning raised inside a root record that is neither an individual nor a family (an unparsable date in a SOUR record) was attributed to whichever INDI / FAM record came before it in the file - it named a person it has nothing to do with, and moving the records changed the report.
package gedcom

import (
	"fmt"
	"testing"
)

func TestGvReplay(t *testing.T) {
	anna := "0 @I1@ INDI\n1 NAME Anna /Smith/\n1 BIRT\n2 DATE 1 JAN 1900\n"
	bert := "0 @I2@ INDI\n1 NAME Bert /Jones/\n1 BIRT\n2 DATE 1 JAN 1900\n"
	sour := "0 @S1@ SOUR\n1 DATA\n2 DATE garbage\n"
	seen := map[string]bool{}
	for _, text := range []string{anna + sour + bert, anna + bert + sour, sour + anna + bert} {
		doc, err := NewDocumentFromString(text)
		if err != nil {
			fmt.Println("GV-REPLAY: INVALID", err)
			return
		}
		ws := doc.Warnings()
		if len(ws) != 1 {
			fmt.Printf("GV-REPLAY: INVALID expected one warning, got %d\n", len(ws))
			return
		}
		c := ws[0].Context()
		if c.Individual != nil || c.Family != nil {
			fmt.Printf("GV-REPLAY: VIOLATED the unparsable date of source S1 is attributed to %v\n", c.Individual)
			return
		}
		seen[ws[0].String()] = true
	}
	if len(seen) != 1 {
		fmt.Printf("GV-REPLAY: VIOLATED reordering the records changes the report: %v\n", seen)
		return
	}
	fmt.Println("GV-REPLAY: HOLDS")
}
