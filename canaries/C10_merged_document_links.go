// gv-replay-dir: .
// Canary for C10 (fixed): the merged nodes were attached to a scratch document while a different document was returned, so families and individuals of the result resolved their references in a document that is not the result.
package gedcom

import (
	"fmt"
	"testing"
)

func TestGvReplay(t *testing.T) {
	defer func() {
		if r := recover(); r != nil {
			fmt.Printf("GV-REPLAY: VIOLATED panicked: %v\n", r)
		}
	}()
	left, _ := NewDocumentFromString("0 @I1@ INDI\n1 NAME Alpha /Beta/\n1 SEX M\n1 BIRT\n2 DATE 1 Jan 1900\n0 @I2@ INDI\n1 NAME Gamma /Delta/\n1 SEX F\n1 BIRT\n2 DATE 2 Feb 1902\n0 @F1@ FAM\n1 HUSB @I1@\n1 WIFE @I2@\n")
	right, _ := NewDocumentFromString("0 @I9@ INDI\n1 NAME Xi /Ypsilon/\n1 BIRT\n2 DATE 3 Mar 1800\n")
	merged, err := MergeDocumentsAndIndividuals(left, right, EqualityMergeFunction, NewIndividualNodesCompareOptions())
	if err != nil {
		fmt.Println("GV-REPLAY: PRECONDITION-NOT-MET", err)
		return
	}
	if len(merged.Families()) != 1 {
		fmt.Printf("GV-REPLAY: VIOLATED the merged document has %d families, expected 1\n", len(merged.Families()))
		return
	}
	husband := merged.Families()[0].Husband().Individual()
	found := false
	for _, individual := range merged.Individuals() {
		if individual == husband {
			found = true
		}
		if individual.Pointer() == "I1" && len(individual.Spouses()) != 1 {
			fmt.Printf("GV-REPLAY: VIOLATED I1 has %d spouses in the merged document, expected 1\n", len(individual.Spouses()))
			return
		}
	}
	if !found {
		fmt.Println("GV-REPLAY: VIOLATED the husband of the merged family is not an individual of the merged document")
		return
	}
	fmt.Println("GV-REPLAY: HOLDS")
}
