// gv-replay-dir: .
// Canary for C13 (b) (fixed): after Document.DeleteNode the deleted record was still returned by NodeByPointer and Families(), and individuals kept the families they had remembered.
package gedcom

import (
	"fmt"
	"testing"
)

func TestGvReplay(t *testing.T) {
	doc := NewDocument()
	p1 := doc.AddIndividual("P1")
	f1 := doc.AddFamily("F1")
	f1.SetHusband(p1)
	_ = doc.Families()
	_ = p1.Families()
	doc.DeleteNode(f1)
	if n := len(doc.Families()); n != 0 {
		fmt.Printf("GV-REPLAY: VIOLATED Families() still has %d family after deleting F1\n", n)
		return
	}
	if doc.NodeByPointer("F1") != nil {
		fmt.Println("GV-REPLAY: VIOLATED NodeByPointer(F1) still finds the deleted family")
		return
	}
	if n := len(p1.Families()); n != 0 {
		fmt.Printf("GV-REPLAY: VIOLATED P1 still remembers %d family after F1 was deleted\n", n)
		return
	}
	doc.DeleteNode(p1)
	if doc.NodeByPointer("P1") != nil {
		fmt.Println("GV-REPLAY: VIOLATED NodeByPointer(P1) still finds the deleted individual")
		return
	}
	fmt.Println("GV-REPLAY: HOLDS")
}
