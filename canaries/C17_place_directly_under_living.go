// gv-replay-dir: html
// Canary for C17 (fixed): a PLAC line that is a direct child of a living INDI was published in hide mode (places.html listed it and a page was written for it): Document.Places records such a place against the individual itself, and the owner lookup only asked whether the node is nested INSIDE an individual.
package html

import (
	"bytes"
	"fmt"
	"strings"
	"testing"

	"github.com/elliotchance/gedcom/v39"
)

func TestGvReplay(t *testing.T) {
	defer func() {
		if r := recover(); r != nil {
			fmt.Printf("GV-REPLAY: VIOLATED panicked: %v\n", r)
		}
	}()
	doc, _ := gedcom.NewDocumentFromString("0 @I1@ INDI\n1 NAME Deadgiven /Deadsur/\n1 BIRT\n2 DATE 1800\n1 DEAT\n2 DATE 1870\n0 @I2@ INDI\n1 NAME Livgiven /Livsur/\n1 PLAC Livplacetoken\n1 BIRT\n2 DATE 1990\n2 PLAC Livbirthplace\n")
	options := &PublishShowOptions{ShowIndividuals: true, ShowPlaces: true, ShowFamilies: true, ShowSurnames: true,
		ShowSources: true, ShowStatistics: true, LivingVisibility: LivingVisibilityHide}
	for file := range NewPublisher(doc, options).Files(1) {
		var buf bytes.Buffer
		file.Component.WriteHTMLTo(&buf)
		text := strings.ToLower(file.Name + buf.String())
		if strings.Contains(text, "livplacetoken") || strings.Contains(text, "livbirthplace") {
			fmt.Printf("GV-REPLAY: VIOLATED a place of a hidden living individual is published (file %s)\n", file.Name)
			return
		}
	}
	fmt.Println("GV-REPLAY: HOLDS")
}
