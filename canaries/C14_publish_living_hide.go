// gv-replay-dir: html
// Canary for C14: publishing with living=hide indexed the empty index-letter list in the page header.
package html

import (
	"bytes"
	"fmt"
	"testing"

	"github.com/elliotchance/gedcom/v39"
)

func TestGvReplay(t *testing.T) {
	defer func() {
		if r := recover(); r != nil {
			fmt.Printf("GV-REPLAY: VIOLATED panicked: %v\n", r)
		}
	}()
	doc, err := gedcom.NewDocumentFromString("0 @I1@ INDI\n1 NAME Elliot /Chance/\n1 BIRT\n2 DATE 1850\n1 DEAT\n2 DATE 1900\n")
	if err != nil {
		fmt.Println("GV-REPLAY: PRECONDITION-NOT-MET", err)
		return
	}
	options := &PublishShowOptions{ShowIndividuals: true, ShowPlaces: true, ShowFamilies: true, ShowSurnames: true,
		ShowSources: true, ShowStatistics: true, LivingVisibility: LivingVisibilityHide}
	n := 0
	for file := range NewPublisher(doc, options).Files(1) {
		var buf bytes.Buffer
		if _, err := file.Component.WriteHTMLTo(&buf); err != nil {
			fmt.Println("GV-REPLAY: PRECONDITION-NOT-MET", err)
			return
		}
		n++
	}
	fmt.Println("GV-REPLAY: HOLDS pages:", n)
}
