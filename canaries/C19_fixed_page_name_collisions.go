// gv-replay-dir: html
// Canary for C19 (known finding): page names made from file content are only made unique against other individuals and places, not against the fixed page names: an individual called "/Places/" gets places.html - the name of the places list - and a source with the pointer @families@ gets families.html. Two files of one name are published.
package html

import (
	"fmt"
	"testing"

	"github.com/elliotchance/gedcom/v39"
)

func TestGvReplay(t *testing.T) {
	defer func() {
		if r := recover(); r != nil {
			fmt.Printf("GV-REPLAY: VIOLATED panicked: %v\n", r)
		}
	}()
	doc, _ := gedcom.NewDocumentFromString("0 @I1@ INDI\n1 NAME /Places/\n1 DEAT Y\n1 BIRT\n2 PLAC Sydney\n0 @families@ SOUR\n1 TITL x\n0 @F1@ FAM\n1 HUSB @I1@\n")
	options := &PublishShowOptions{ShowIndividuals: true, ShowPlaces: true, ShowFamilies: true, ShowSurnames: true,
		ShowSources: true, ShowStatistics: true, LivingVisibility: LivingVisibilityShow}
	seen := map[string]int{}
	for file := range NewPublisher(doc, options).Files(1) {
		seen[file.Name]++
	}
	for name, n := range seen {
		if n > 1 {
			fmt.Printf("GV-REPLAY: VIOLATED %d files named %s are published\n", n, name)
			return
		}
	}
	fmt.Println("GV-REPLAY: HOLDS")
}
