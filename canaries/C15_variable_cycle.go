// gv-replay-dir: q
// Canary for C15 (fixed): a variable that is defined in terms of itself ("X is X; X") recursed until the stack overflowed (a fatal error, not even a panic).
package q

import (
	"fmt"
	"testing"

	"github.com/elliotchance/gedcom/v39"
)

func TestGvReplay(t *testing.T) {
	doc, _ := gedcom.NewDocumentFromString("0 @I1@ INDI\n")
	for _, query := range []string{"X is X; X", "A is B; B is A; A", "A is .Individuals | B; B is A | Length; B"} {
		engine, err := NewParser().ParseString(query)
		if err != nil {
			fmt.Println("GV-REPLAY: PRECONDITION-NOT-MET", err)
			return
		}
		_, err = engine.Evaluate([]*gedcom.Document{doc})
		if err == nil {
			fmt.Printf("GV-REPLAY: VIOLATED %q evaluated without an error\n", query)
			return
		}
	}
	// a variable may be used twice, and after a cycle error the engine still works
	engine, _ := NewParser().ParseString("N is .Individuals | Length; Combine(.Individuals, .Individuals) | Length")
	if _, err := engine.Evaluate([]*gedcom.Document{doc}); err != nil {
		fmt.Println("GV-REPLAY: VIOLATED a legal query fails:", err)
		return
	}
	fmt.Println("GV-REPLAY: HOLDS")
}
