// gv-replay-dir: .
// Canary for C13: Document.Warnings used to copy every node back into the
// document it was reading, which appended one new family record per family.
package gedcom

import (
	"fmt"
	"testing"
)

func TestGvReplay(t *testing.T) {
	doc, _ := NewDocumentFromString("0 @I1@ INDI\n1 NAME A /B/\n1 FAMS @F1@\n0 @I2@ INDI\n1 NAME C /B/\n1 FAMC @F1@\n0 @F1@ FAM\n1 HUSB @I1@\n1 CHIL @I2@\n")
	before := doc.String()
	nFam := len(doc.Families())
	_ = doc.Warnings()
	after := doc.String()
	if before != after || len(doc.Families()) != nFam {
		fmt.Printf("GV-REPLAY: VIOLATED Warnings() changed the document:\n%s\n---\n%s\n", before, after)
		return
	}
	fmt.Println("GV-REPLAY: HOLDS")
}
