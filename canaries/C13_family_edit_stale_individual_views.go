// gv-replay-dir: .
// Canary for C13 (b) (fixed): after SetHusband / SetWife / AddChild / SetHusband(nil) an individual whose Families(), Spouses() or Parents() had been asked before kept the old answer; a fresh decode of the document's text disagreed.
package gedcom

import (
	"fmt"
	"testing"
)

func TestGvReplay(t *testing.T) {
	doc := NewDocument()
	a := doc.AddIndividual("A")
	b := doc.AddIndividual("B")
	c := doc.AddIndividual("C")
	f := doc.AddFamily("F")
	_, _, _, _ = a.Families(), a.Spouses(), c.Parents(), b.Families() // warm, all empty
	f.SetHusband(a)
	f.SetWife(b)
	f.AddChild(c)
	fresh, err := NewDocumentFromString(doc.String())
	if err != nil {
		fmt.Println("GV-REPLAY: VIOLATED cannot decode own text:", err)
		return
	}
	fa, fb, fc := fresh.Individuals()[0], fresh.Individuals()[1], fresh.Individuals()[2]
	check := func(what string, got, want int) bool {
		if got != want {
			fmt.Printf("GV-REPLAY: VIOLATED %s: the view has %d, a fresh decode of the text %d\n", what, got, want)
			return false
		}
		return true
	}
	if !check("A.Families after SetHusband(A)", len(a.Families()), len(fa.Families())) ||
		!check("A.Spouses after SetWife(B)", len(a.Spouses()), len(fa.Spouses())) ||
		!check("B.Families after SetWife(B)", len(b.Families()), len(fb.Families())) ||
		!check("C.Parents after AddChild(C)", len(c.Parents()), len(fc.Parents())) {
		return
	}
	f.SetHusband(nil)
	fresh, _ = NewDocumentFromString(doc.String())
	if !check("A.Families after SetHusband(nil)", len(a.Families()), len(fresh.Individuals()[0].Families())) ||
		!check("B.Spouses after SetHusband(nil)", len(b.Spouses()), len(fresh.Individuals()[1].Spouses())) {
		return
	}
	fmt.Println("GV-REPLAY: HOLDS")
}
