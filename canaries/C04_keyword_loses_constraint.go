// gv-replay-dir: .
// Canary for C04 (fixed): keyword spellings without a dot ("abt 1983", "BEF 1900", "aft Sep 1900", "circa 1850") silently lost their constraint: the unescaped "." of "Abt." matched the blank.
package gedcom

import (
	"fmt"
	"testing"
)

func TestGvReplay(t *testing.T) {
	bad := 0
	for s, want := range map[string]DateConstraint{
		"abt 1983":     DateConstraintAbout,
		"BEF 1900":     DateConstraintBefore,
		"aft Sep 1900": DateConstraintAfter,
		"circa 1850":   DateConstraintAbout,
		"Abt. 1945":    DateConstraintAbout,
		"bef. 3 Mar 1801": DateConstraintBefore,
	} {
		d := NewDateRangeWithString(s).StartDate()
		if d.Constraint != want || d.ParseError != nil {
			fmt.Printf("GV-REPLAY: VIOLATED %q parses with constraint %v (valid=%v), documented: %v\n", s, d.Constraint, d.ParseError == nil, want)
			bad++
		}
	}
	if bad == 0 {
		fmt.Println("GV-REPLAY: HOLDS")
	}
}
