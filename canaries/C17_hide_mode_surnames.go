// gv-replay-dir: html
// Canary for C17 (fixed): with living individuals hidden, surnames.html depended on the living individuals' data.
package html

import (
	"bytes"
	"fmt"
	"sort"
	"testing"

	"github.com/elliotchance/gedcom/v39"
)

func gvSite(text string) map[string]string {
	doc, _ := gedcom.NewDocumentFromString(text)
	options := &PublishShowOptions{ShowIndividuals: true, ShowPlaces: true, ShowFamilies: true, ShowSurnames: true,
		ShowSources: true, ShowStatistics: true, LivingVisibility: LivingVisibilityHide}
	site := map[string]string{}
	for file := range NewPublisher(doc, options).Files(1) {
		var buf bytes.Buffer
		file.Component.WriteHTMLTo(&buf)
		site[file.Name] = buf.String()
	}
	return site
}

func TestGvReplay(t *testing.T) {
	defer func() {
		if r := recover(); r != nil {
			fmt.Printf("GV-REPLAY: VIOLATED panicked: %v\n", r)
		}
	}()
	dead := "0 @I1@ INDI\n1 NAME Old /Timer/\n1 SEX M\n1 BIRT\n2 DATE 1 Jan 1800\n2 PLAC Oldtown\n1 DEAT\n2 DATE 1 Jan 1870\n"
	fam := "0 @F1@ FAM\n1 HUSB @I1@\n1 WIFE @I2@\n1 CHIL @I3@\n"
	a := gvSite(dead + "0 @I2@ INDI\n1 NAME Alive /Andwell/\n1 SEX F\n1 BIRT\n2 DATE 3 Mar 2010\n2 PLAC Secretville\n0 @I3@ INDI\n1 NAME Kid /Timer/\n1 BIRT\n2 DATE 5 May 2015\n" + fam)
	b := gvSite(dead + "0 @I2@ INDI\n1 NAME Zed /Zulu/\n1 SEX M\n0 @I3@ INDI\n1 NAME Other /Person/\n1 SEX F\n1 BIRT\n2 DATE 9 Sep 2012\n2 PLAC Elsewhere\n" + fam)
	var names []string
	for n := range a {
		names = append(names, n)
	}
	for n := range b {
		if _, ok := a[n]; !ok {
			names = append(names, n)
		}
	}
	sort.Strings(names)
	for _, n := range []string{"surnames.html"} {
		if a[n] != b[n] {
			x, y := a[n], b[n]
			i := 0
			for i < len(x) && i < len(y) && x[i] == y[i] {
				i++
			}
			lo := i - 60
			if lo < 0 {
				lo = 0
			}
			hx, hy := i+60, i+60
			if hx > len(x) {
				hx = len(x)
			}
			if hy > len(y) {
				hy = len(y)
			}
			fmt.Printf("GV-REPLAY: VIOLATED page %s differs when only living people's data differ: ...%q... vs ...%q...\n", n, x[lo:hx], y[lo:hy])
			return
		}
	}
	fmt.Println("GV-REPLAY: HOLDS pages:", len(names))
}
