// gv-replay-dir: q
// Canary for C15 (fixed): the HTML formatter (and everything else that asks gedcom.IsNil about a value that is not a pointer) crashed on plain query results such as a string or a number.
package q

import (
	"bytes"
	"fmt"
	"testing"

	"github.com/elliotchance/gedcom/v39"
)

func TestGvReplay(t *testing.T) {
	doc, _ := gedcom.NewDocumentFromString("0 @I1@ INDI\n1 NAME John /Smith/\n")
	for _, q := range []string{`.Individuals | .Name | .String`, `.Individuals | Length`, `"text"`, `.Individuals | First(1) | .Name | .String | First(1)`} {
		crashed := func() (r interface{}) {
			defer func() { r = recover() }()
			engine, err := NewParser().ParseString(q)
			if err != nil {
				return nil
			}
			result, err := engine.Evaluate([]*gedcom.Document{doc})
			if err != nil {
				return nil
			}
			for _, f := range []Formatter{&HTMLFormatter{Writer: &bytes.Buffer{}}, &JSONFormatter{Writer: &bytes.Buffer{}}, &PrettyJSONFormatter{Writer: &bytes.Buffer{}}, &CSVFormatter{Writer: &bytes.Buffer{}}, &GEDCOMFormatter{Writer: &bytes.Buffer{}}} {
				_ = f.Write(result)
			}
			return nil
		}()
		if crashed != nil {
			fmt.Printf("GV-REPLAY: VIOLATED writing the result of %q panics: %v\n", q, crashed)
			return
		}
	}
	fmt.Println("GV-REPLAY: HOLDS")
}
