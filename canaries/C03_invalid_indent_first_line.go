// gv-replay-dir: .
// Canary for C03 (known finding): AllowInvalidIndents + first line above level 0.
package gedcom

import (
	"fmt"
	"strings"
	"testing"
)

func TestGvReplay(t *testing.T) {
	defer func() {
		if r := recover(); r != nil {
			fmt.Printf("GV-REPLAY: VIOLATED decoder panicked: %v\n", r)
		}
	}()
	dec := NewDecoder(strings.NewReader("1 NAME x\n"))
	dec.AllowInvalidIndents = true
	_, err := dec.Decode()
	fmt.Println("GV-REPLAY: HOLDS", err)
}
