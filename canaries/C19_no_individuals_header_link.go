// gv-replay-dir: html
// Canary for C19 (known finding): a document without (visible) individuals published with the individual pages switched on: the header of every page links to individuals-symbol.html, which is never written.
package html

import (
	"bytes"
	"fmt"
	"regexp"
	"testing"

	"github.com/elliotchance/gedcom/v39"
)

func TestGvReplay(t *testing.T) {
	defer func() {
		if r := recover(); r != nil {
			fmt.Printf("GV-REPLAY: VIOLATED panicked: %v\n", r)
		}
	}()
	doc, _ := gedcom.NewDocumentFromString("0 @S1@ SOUR\n1 TITL x\n")
	options := &PublishShowOptions{ShowIndividuals: true, ShowPlaces: true, ShowFamilies: true, ShowSurnames: true,
		ShowSources: true, ShowStatistics: true, LivingVisibility: LivingVisibilityShow}
	pages := map[string]string{}
	for file := range NewPublisher(doc, options).Files(1) {
		var buf bytes.Buffer
		file.Component.WriteHTMLTo(&buf)
		pages[file.Name] = buf.String()
	}
	href := regexp.MustCompile(`href="([^"#]+\.html)`)
	for name, body := range pages {
		for _, m := range href.FindAllStringSubmatch(body, -1) {
			if _, ok := pages[m[1]]; !ok {
				fmt.Printf("GV-REPLAY: VIOLATED %s links to %s, which is not written\n", name, m[1])
				return
			}
		}
	}
	fmt.Println("GV-REPLAY: HOLDS")
}
