// gv-replay-dir: html
// Canary for C18: values from the file reached attribute values (href of
// surname/source/place links), anchor names and table heads without escaping.
package html

import (
	"bytes"
	"fmt"
	"strings"
	"testing"

	"github.com/elliotchance/gedcom/v39"
	"github.com/elliotchance/gedcom/v39/html/core"
)

type gvMemWriter struct{ files map[string]string }

func (m *gvMemWriter) WriteFile(file *core.File) error {
	var b bytes.Buffer
	file.Component.WriteHTMLTo(&b)
	m.files[file.Name] = b.String()
	return nil
}

func TestGvReplay(t *testing.T) {
	taint := `zq"><script>alert(1)</script>`
	src := "0 @I1@ INDI\n1 NAME John /Sm" + taint + "/\n1 BIRT\n2 DATE 1 Jan 1800\n2 PLAC Town, Cou" + taint + "\n2 SOUR @S1@\n1 DEAT\n2 DATE 1 Jan 1850\n0 @S1@ SOUR\n1 TITL Title\n1 _X" + "Y prop" + taint + "\n"
	doc, err := gedcom.NewDocumentFromString(src)
	if err != nil {
		fmt.Println("GV-REPLAY: HOLDS (decode error)", err)
		return
	}
	options := &PublishShowOptions{ShowIndividuals: true, ShowPlaces: true, ShowFamilies: true, ShowSurnames: true, ShowSources: true, ShowStatistics: true, LivingVisibility: LivingVisibilityShow}
	w := &gvMemWriter{files: map[string]string{}}
	func() {
		defer func() { recover() }()
		NewPublisher(doc, options).Publish(w, 1)
	}()
	bad := 0
	for name, content := range w.files {
		if strings.Contains(content, "<script>alert(1)</script>") || strings.Contains(content, `zq"><`) {
			fmt.Printf("GV-REPLAY: VIOLATED raw markup from the file in %s\n", name)
			bad++
		}
	}
	if bad == 0 {
		fmt.Println("GV-REPLAY: HOLDS (files:", len(w.files), ")")
	}
}
