// gv-replay-dir: html
// Canary for C19: the page of a source was named after its raw pointer, so a
// pointer such as "../x" wrote outside the output directory.
package html

import (
	"fmt"
	"strings"
	"testing"

	"github.com/elliotchance/gedcom/v39"
	"github.com/elliotchance/gedcom/v39/html/core"
)

type gvNameWriter struct{ names []string }

func (m *gvNameWriter) WriteFile(file *core.File) error {
	m.names = append(m.names, file.Name)
	return nil
}

func TestGvReplay(t *testing.T) {
	doc, _ := gedcom.NewDocumentFromString("0 @I1@ INDI\n1 NAME A /B/\n1 DEAT\n2 DATE 1 Jan 1850\n0 @../x@ SOUR\n1 TITL T\n0 @a/b@ SOUR\n1 TITL U\n")
	options := &PublishShowOptions{ShowSources: true, LivingVisibility: LivingVisibilityShow}
	w := &gvNameWriter{}
	func() {
		defer func() { recover() }()
		NewPublisher(doc, options).Publish(w, 1)
	}()
	bad := 0
	for _, n := range w.names {
		if strings.ContainsAny(n, `/\`) || strings.Contains(n, "..") {
			fmt.Printf("GV-REPLAY: VIOLATED file name leaves the output directory: %q\n", n)
			bad++
		}
	}
	if bad == 0 {
		fmt.Println("GV-REPLAY: HOLDS (files:", w.names, ")")
	}
}
