// gv-replay-dir: html
// Canary for C19 (fixed): the individual pages were sent before the places were known, so a person whose name collapses to the same key as a place ("Sydney Australia" / "Sydney, Australia") got the same file name as the place page, and links pointed at a page that was never written.
package html

import (
	"fmt"
	"sort"
	"testing"

	"github.com/elliotchance/gedcom/v39"
)

func TestGvReplay(t *testing.T) {
	doc, err := gedcom.NewDocumentFromString("0 @I1@ INDI\n1 NAME Sydney /Australia/\n1 BIRT\n2 DATE 1 Jan 1800\n2 PLAC Sydney, Australia\n1 DEAT\n2 DATE 1 Jan 1870\n0 @I2@ INDI\n1 NAME John /Smith/\n1 BIRT\n2 DATE 1 Jan 1801\n2 PLAC Sydney, Australia\n1 DEAT\n2 DATE 1 Jan 1871\n")
	if err != nil {
		fmt.Println("GV-REPLAY: HOLDS (setup failed: " + err.Error() + ")")
		return
	}
	options := &PublishShowOptions{ShowIndividuals: true, ShowPlaces: true, ShowFamilies: true, ShowSurnames: true, ShowSources: true, ShowStatistics: true, LivingVisibility: LivingVisibilityShow}
	publisher := NewPublisher(doc, options)
	seen := map[string]int{}
	for file := range publisher.Files(1) {
		seen[file.Name]++
	}
	var dup []string
	for n, c := range seen {
		if c > 1 {
			dup = append(dup, n)
		}
	}
	sort.Strings(dup)
	if len(dup) > 0 {
		fmt.Printf("GV-REPLAY: VIOLATED two pages share a file name: %v\n", dup)
		return
	}
	fmt.Println("GV-REPLAY: HOLDS")
}
