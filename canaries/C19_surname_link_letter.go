// gv-replay-dir: html
// Canary for C19 (fixed): the surname list linked a surname that does not start with a-z ("1st", "Émile") to individuals-1.html / individuals-Ã.html - pages that are never written (such people are listed on individuals-symbol.html): the link took the first BYTE of the surname, the index pages use the symbol letter.
package html

import (
	"bytes"
	"fmt"
	"regexp"
	"strings"
	"testing"

	"github.com/elliotchance/gedcom/v39"
)

func TestGvReplay(t *testing.T) {
	defer func() {
		if r := recover(); r != nil {
			fmt.Printf("GV-REPLAY: VIOLATED panicked: %v\n", r)
		}
	}()
	doc, _ := gedcom.NewDocumentFromString("0 @I1@ INDI\n1 NAME John /1st/\n1 DEAT Y\n0 @I2@ INDI\n1 NAME Ann /Émile/\n1 DEAT Y\n0 @I3@ INDI\n1 NAME Bob /Smith/\n1 DEAT Y\n")
	options := &PublishShowOptions{ShowIndividuals: true, ShowPlaces: true, ShowFamilies: true, ShowSurnames: true,
		ShowSources: true, ShowStatistics: true, LivingVisibility: LivingVisibilityShow}
	pages := map[string]string{}
	for file := range NewPublisher(doc, options).Files(1) {
		var buf bytes.Buffer
		file.Component.WriteHTMLTo(&buf)
		pages[file.Name] = buf.String()
	}
	href := regexp.MustCompile(`href="([^"#]+\.html)`)
	body := pages["surnames.html"]
	if body == "" {
		fmt.Println("GV-REPLAY: INVALID no surnames.html")
		return
	}
	for _, m := range href.FindAllStringSubmatch(body, -1) {
		if _, ok := pages[m[1]]; !ok && strings.HasPrefix(m[1], "individuals-") {
			fmt.Printf("GV-REPLAY: VIOLATED surnames.html links to %s, which is not written\n", m[1])
			return
		}
	}
	fmt.Println("GV-REPLAY: HOLDS")
}
