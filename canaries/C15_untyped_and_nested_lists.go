// gv-replay-dir: q
// Canary for C15 (fixed): queries over a list whose element type is not known ('.Foo' on an empty list gives []interface{}) crashed '?' and Only(); object construction and comparisons over a list of lists crashed in reflect.Append; the CSV formatter called ObjectMap on a typed-nil node ('.Individuals | .Birth' when someone has no birth).
package q

import (
	"bytes"
	"fmt"
	"testing"

	"github.com/elliotchance/gedcom/v39"
)

func TestGvReplay(t *testing.T) {
	doc, _ := gedcom.NewDocumentFromString("0 HEAD\n0 @I1@ INDI\n1 NAME John /Smith/\n1 BIRT\n2 DATE 1 Jan 1900\n0 @I2@ INDI\n1 NAME Jane /Doe/\n0 @F1@ FAM\n1 HUSB @I1@\n1 WIFE @I2@\n0 TRLR\n")
	for _, q := range []string{
		`.Individuals | First(0) | .Foo | ?`,
		`.Nodes | .Tag | ?`,
		`.Individuals | First(0) | .Foo | Only(.X)`,
		`.Individuals | .Names | {}`,
		`.Individuals | .Names | {a: .String}`,
		`.Individuals | .Names | .String = "x"`,
		`.Individuals | .Birth`,
	} {
		crashed := func() (r interface{}) {
			defer func() { r = recover() }()
			engine, err := NewParser().ParseString(q)
			if err != nil {
				return nil
			}
			result, err := engine.Evaluate([]*gedcom.Document{doc})
			if err != nil {
				return nil
			}
			for _, f := range []Formatter{&HTMLFormatter{Writer: &bytes.Buffer{}}, &JSONFormatter{Writer: &bytes.Buffer{}}, &PrettyJSONFormatter{Writer: &bytes.Buffer{}}, &CSVFormatter{Writer: &bytes.Buffer{}}, &GEDCOMFormatter{Writer: &bytes.Buffer{}}} {
				_ = f.Write(result)
			}
			return nil
		}()
		if crashed != nil {
			fmt.Printf("GV-REPLAY: VIOLATED %q panics: %v\n", q, crashed)
			return
		}
	}
	fmt.Println("GV-REPLAY: HOLDS")
}
