// gv-replay-dir: .
// Canary for C06 (fixed): a single-day range compared with itself was InsideStart, not Equal, and the converse failed when an operand was a single day ([1,3] vs [3,3] was Before, [3,3] vs [1,3] InsideEnd).
package gedcom

import (
	"fmt"
	"testing"
)

func TestGvReplay(t *testing.T) {
	conv := map[DateRangeComparison]DateRangeComparison{
		DateRangeComparisonEqual:           DateRangeComparisonEqual,
		DateRangeComparisonInside:          DateRangeComparisonOutside,
		DateRangeComparisonOutside:         DateRangeComparisonInside,
		DateRangeComparisonInsideStart:     DateRangeComparisonOutsideStart,
		DateRangeComparisonOutsideStart:    DateRangeComparisonInsideStart,
		DateRangeComparisonInsideEnd:       DateRangeComparisonOutsideEnd,
		DateRangeComparisonOutsideEnd:      DateRangeComparisonInsideEnd,
		DateRangeComparisonPartiallyBefore: DateRangeComparisonPartiallyAfter,
		DateRangeComparisonPartiallyAfter:  DateRangeComparisonPartiallyBefore,
		DateRangeComparisonBefore:          DateRangeComparisonAfter,
		DateRangeComparisonAfter:           DateRangeComparisonBefore,
		DateRangeComparisonEntirelyBefore:  DateRangeComparisonEntirelyAfter,
		DateRangeComparisonEntirelyAfter:   DateRangeComparisonEntirelyBefore,
	}
	mk := func(a, b int) DateRange {
		return NewDateRangeWithString(fmt.Sprintf("Bet. %d Sep 1943 and %d Sep 1943", a, b))
	}
	for a := 1; a <= 5; a++ {
		for b := a; b <= 5; b++ {
			if got := mk(a, b).Compare(mk(a, b)); got != DateRangeComparisonEqual {
				fmt.Printf("GV-REPLAY: VIOLATED [%d,%d] compared with itself is %v\n", a, b, got)
				return
			}
			for c := 1; c <= 5; c++ {
				for d := c; d <= 5; d++ {
					x, y := mk(a, b).Compare(mk(c, d)), mk(c, d).Compare(mk(a, b))
					if x == DateRangeComparisonInvalid || conv[x] != y {
						fmt.Printf("GV-REPLAY: VIOLATED [%d,%d] vs [%d,%d] is %v but the swapped comparison is %v\n", a, b, c, d, x, y)
						return
					}
				}
			}
		}
	}
	fmt.Println("GV-REPLAY: HOLDS")
}
