//go:build verif

// Contracts for the deductive verifier in /verif (gv). This file contains
// comments only and is compiled only with the build tag `verif`; it adds no
// code. Syntax: see /verif/DESIGN.md section 3.

package gedcom

// ---------------------------------------------------------------------------
// Dates as day numbers (C05, C06)
//
// A date "shape" is valid when it is a full calendar date, a month and a
// year, or a year alone, with the year in 1..9999.
//
//@ spec func shapeOK(d int, m int, y int) bool = 1 <= y && y <= 9999 && ((d == 0 && m == 0) || (d == 0 && 1 <= m && m <= 12) || validDMY(d, m, y))
//@ spec func firstDay(d int, m int, y int) int = ite(d != 0, dayno(y, m, d), ite(m != 0, dayno(y, m, 1), dayno(y, 1, 1)))
//@ spec func lastDay(d int, m int, y int) int = ite(d != 0, dayno(y, m, d), ite(m != 0, dayno(y, m, dim(m, y)), dayno(y, 12, 31)))
//
//@ func Date.safeParse
//@   inline
//
//@ func Date.Time
//@   props C05 C06
//@   requires shapeOK(date.Day, date.Month, date.Year)
//@   ensures start: implies(!date.IsEndOfRange, result == firstDay(date.Day, date.Month, date.Year)*NSDAY)
//@   ensures end: implies(date.IsEndOfRange, result == (lastDay(date.Day, date.Month, date.Year) + 1)*NSDAY - 1)
//@   ensures civil-start: implies(!date.IsEndOfRange, isCivil(firstDay(date.Day, date.Month, date.Year), date.Year, ite(date.Month != 0, date.Month, 1), ite(date.Day != 0, date.Day, 1)))
//@   ensures civil-end: implies(date.IsEndOfRange, isCivil(lastDay(date.Day, date.Month, date.Year), date.Year, ite(date.Month != 0, date.Month, 12), ite(date.Day != 0, date.Day, ite(date.Month != 0, dim(date.Month, date.Year), 31))))
//@   assigns nothing

// ---------------------------------------------------------------------------
// C06 — date-range comparison
//
// A valid range is a pair of day numbers a <= b (receiver) and c <= d
// (argument). R is the documentation's picture in date_range_comparison.go,
// transcribed row by row; the receiver is the picture's "Right", the argument
// its "Left". For degenerate (single-day) operands several rows can hold at
// once; the result must be one of them.
//
//@ spec func letter(v int, s int, e int) string = ite(v == s, "e", ite(v == e, "E", ite(v < s, "b", ite(v > e, "A", "a"))))
//@ spec func cmpCode(a int, b int, c int, d int) int = dateRangeCompareMatrix[letter(a, c, d) + letter(b, c, d)]
//@ spec func inR(r int, a int, b int, c int, d int) bool = (r == DateRangeComparisonEqual && a == c && b == d) || (r == DateRangeComparisonInside && c < a && b < d) || (r == DateRangeComparisonInsideStart && a == c && b < d) || (r == DateRangeComparisonInsideEnd && c < a && b == d) || (r == DateRangeComparisonOutside && a < c && d < b) || (r == DateRangeComparisonOutsideStart && a == c && d < b) || (r == DateRangeComparisonOutsideEnd && a < c && b == d) || (r == DateRangeComparisonPartiallyBefore && a < c && c < b && b < d) || (r == DateRangeComparisonPartiallyAfter && c < a && a < d && d < b) || (r == DateRangeComparisonBefore && a < c && b == c) || (r == DateRangeComparisonAfter && a == d && d < b) || (r == DateRangeComparisonEntirelyBefore && b < c) || (r == DateRangeComparisonEntirelyAfter && d < a)
//@ spec func conv(r int) int = ite(r == DateRangeComparisonInside, DateRangeComparisonOutside, ite(r == DateRangeComparisonOutside, DateRangeComparisonInside, ite(r == DateRangeComparisonInsideStart, DateRangeComparisonOutsideStart, ite(r == DateRangeComparisonOutsideStart, DateRangeComparisonInsideStart, ite(r == DateRangeComparisonInsideEnd, DateRangeComparisonOutsideEnd, ite(r == DateRangeComparisonOutsideEnd, DateRangeComparisonInsideEnd, ite(r == DateRangeComparisonPartiallyBefore, DateRangeComparisonPartiallyAfter, ite(r == DateRangeComparisonPartiallyAfter, DateRangeComparisonPartiallyBefore, ite(r == DateRangeComparisonBefore, DateRangeComparisonAfter, ite(r == DateRangeComparisonAfter, DateRangeComparisonBefore, ite(r == DateRangeComparisonEntirelyBefore, DateRangeComparisonEntirelyAfter, ite(r == DateRangeComparisonEntirelyAfter, DateRangeComparisonEntirelyBefore, r))))))))))))
//@ spec func dayOf(d int, m int, y int, eor bool) int = ite(eor, lastDay(d, m, y), firstDay(d, m, y))
//
//@ func compareDatesForLetter
//@   props C06
//@   requires shapeOK(value.Day, value.Month, value.Year) && shapeOK(start.Day, start.Month, start.Year) && shapeOK(end.Day, end.Month, end.Year)
//@   requires !(value.IsEndOfRange && value.Year == 1 && value.Month <= 1 && value.Day <= 1) && !(end.IsEndOfRange && end.Year == 1 && end.Month <= 1 && end.Day <= 1) && !(start.IsEndOfRange && start.Year == 1 && start.Month <= 1 && start.Day <= 1)
//@   ensures letter: result == letter(dayOf(value.Day, value.Month, value.Year, value.IsEndOfRange), dayOf(start.Day, start.Month, start.Year, start.IsEndOfRange), dayOf(end.Day, end.Month, end.Year, end.IsEndOfRange))
//@   assigns nothing
//
//@ func DateRange.Compare
//@   props C06
//@   let a = firstDay(dr.start.Day, dr.start.Month, dr.start.Year)
//@   let b = lastDay(dr.end.Day, dr.end.Month, dr.end.Year)
//@   let c = firstDay(dr2.start.Day, dr2.start.Month, dr2.start.Year)
//@   let d = lastDay(dr2.end.Day, dr2.end.Month, dr2.end.Year)
//@   requires shapeOK(dr.start.Day, dr.start.Month, dr.start.Year) && shapeOK(dr.end.Day, dr.end.Month, dr.end.Year) && shapeOK(dr2.start.Day, dr2.start.Month, dr2.start.Year) && shapeOK(dr2.end.Day, dr2.end.Month, dr2.end.Year)
//@   requires !dr.start.IsEndOfRange && dr.end.IsEndOfRange && !dr2.start.IsEndOfRange && dr2.end.IsEndOfRange
//@   requires !(dr.end.Year == 1 && dr.end.Month <= 1 && dr.end.Day <= 1) && !(dr2.end.Year == 1 && dr2.end.Month <= 1 && dr2.end.Day <= 1)
//@   requires a <= b && c <= d
//@   ensures code-shape: result == cmpCode(a, b, c, d)
//@   ensures doc-relation: inR(result, a, b, c, d)
//@   ensures never-invalid: result != DateRangeComparisonInvalid
//@   ensures self-equal: implies(a == c && b == d, result == DateRangeComparisonEqual)
//@   assigns nothing
//
//@ lemma converse props C06: forall(a, forall(b, forall(c, forall(d, implies(a <= b && c <= d && a != b && c != d, cmpCode(a, b, c, d) == conv(cmpCode(c, d, a, b)))))))
//@ lemma converse-single-day props C06: forall(a, forall(b, forall(c, forall(d, implies(a <= b && c <= d, cmpCode(a, b, c, d) == conv(cmpCode(c, d, a, b)))))))
//
//@ func DateRangeComparison.IsEqual
//@   props C06
//@   ensures result == (c == DateRangeComparisonEqual)
//@ func DateRangeComparison.IsPartiallyEqual
//@   props C06
//@   ensures result == (c == DateRangeComparisonInside || c == DateRangeComparisonInsideStart || c == DateRangeComparisonInsideEnd || c == DateRangeComparisonOutside || c == DateRangeComparisonOutsideStart || c == DateRangeComparisonOutsideEnd || c == DateRangeComparisonPartiallyBefore || c == DateRangeComparisonPartiallyAfter)
//@ func DateRangeComparison.IsNotEqual
//@   props C06
//@   ensures result == (c == DateRangeComparisonBefore || c == DateRangeComparisonAfter || c == DateRangeComparisonEntirelyBefore || c == DateRangeComparisonEntirelyAfter)
//@ spec func isEq(c int) bool = c == DateRangeComparisonEqual
//@ spec func isPart(c int) bool = c == DateRangeComparisonInside || c == DateRangeComparisonInsideStart || c == DateRangeComparisonInsideEnd || c == DateRangeComparisonOutside || c == DateRangeComparisonOutsideStart || c == DateRangeComparisonOutsideEnd || c == DateRangeComparisonPartiallyBefore || c == DateRangeComparisonPartiallyAfter
//@ spec func isNot(c int) bool = c == DateRangeComparisonBefore || c == DateRangeComparisonAfter || c == DateRangeComparisonEntirelyBefore || c == DateRangeComparisonEntirelyAfter
//@ lemma one-verdict props C06: forall(c, implies(1 <= c && c <= 13, (isEq(c) && !isPart(c) && !isNot(c)) || (!isEq(c) && isPart(c) && !isNot(c)) || (!isEq(c) && !isPart(c) && isNot(c))))
//@ lemma compare-range props C06: forall(a, forall(b, forall(c, forall(d, implies(a <= b && c <= d, 1 <= cmpCode(a, b, c, d) && cmpCode(a, b, c, d) <= 13)))))

// ---------------------------------------------------------------------------
// C05 — the Years scale
//
// yearsFull is the documented fractional year of a full date: the year plus
// the day of the year over (days in the year + 1). yearsFullDiv is the same
// value in the shape the code computes it (division by a variable); the
// second postcondition of Date.Years restates it with constant divisors so
// that the property-level lemmas stay linear.
//
//@ spec func yearsFull(y int, m int, d int) real = ite(leap(y), real(y) + real(yday(y, m, d))/367.0, real(y) + real(yday(y, m, d))/366.0)
//@ spec func yearsFullDiv(y int, m int, d int) real = real(y) + real(yday(y, m, d))/real(diy(y) + 1)
//@ spec func yearsSpecDiv(d int, m int, y int) real = ite(d != 0, yearsFullDiv(y, m, d), ite(m != 0, (yearsFullDiv(y, m, 1) + yearsFullDiv(y, m, dim(m, y)))/2.0, real(y) + 0.5))
//@ spec func yearsSpec(d int, m int, y int) real = ite(d != 0, yearsFull(y, m, d), ite(m != 0, (yearsFull(y, m, 1) + yearsFull(y, m, dim(m, y)))/2.0, real(y) + 0.5))
//
//@ func Date.Years
//@   props C05
//@   requires shapeOK(date.Day, date.Month, date.Year)
//@   requires !(date.IsEndOfRange && date.Year == 1 && date.Month <= 1 && date.Day <= 1)
//@   ensures scale-code-form: result == yearsSpecDiv(date.Day, date.Month, date.Year)
//@   ensures scale: result == yearsSpec(date.Day, date.Month, date.Year)
//@   assigns nothing
//
//@ func Date.IsBefore
//@   props C05
//@   requires shapeOK(date.Day, date.Month, date.Year) && shapeOK(date2.Day, date2.Month, date2.Year)
//@   requires !(date.IsEndOfRange && date.Year == 1 && date.Month <= 1 && date.Day <= 1) && !(date2.IsEndOfRange && date2.Year == 1 && date2.Month <= 1 && date2.Day <= 1)
//@   ensures order: result == (yearsSpec(date.Day, date.Month, date.Year) < yearsSpec(date2.Day, date2.Month, date2.Year))
//@   assigns nothing
//@ func Date.IsAfter
//@   props C05
//@   requires shapeOK(date.Day, date.Month, date.Year) && shapeOK(date2.Day, date2.Month, date2.Year)
//@   requires !(date.IsEndOfRange && date.Year == 1 && date.Month <= 1 && date.Day <= 1) && !(date2.IsEndOfRange && date2.Year == 1 && date2.Month <= 1 && date2.Day <= 1)
//@   ensures order: result == (yearsSpec(date.Day, date.Month, date.Year) > yearsSpec(date2.Day, date2.Month, date2.Year))
//@   assigns nothing
//
// Property-level statements over the spec functions the code is proved against.
//@ lemma dayno-origin props C05: dayno(1, 1, 1) == 0
//@ lemma dayno-successor props C05: forall(y, forall(m, forall(d, implies(validDMY(d, m, y), ite(d < dim(m, y), dayno(y, m, d + 1), ite(m < 12, dayno(y, m + 1, 1), dayno(y + 1, 1, 1))) == dayno(y, m, d) + 1))))
//@ lemma period-day props C05: forall(y, forall(m, forall(d, implies(validDMY(d, m, y), lastDay(d, m, y) - firstDay(d, m, y) + 1 == 1))))
//@ lemma period-month props C05: forall(y, forall(m, implies(1 <= y && y <= 9999 && 1 <= m && m <= 12, lastDay(0, m, y) - firstDay(0, m, y) + 1 == dim(m, y))))
//@ lemma period-year props C05: forall(y, implies(1 <= y && y <= 9999, lastDay(0, 0, y) - firstDay(0, 0, y) + 1 == diy(y)))
//@ lemma start-le-end props C05: forall(y, forall(m, forall(d, implies(shapeOK(d, m, y), firstDay(d, m, y)*NSDAY <= (lastDay(d, m, y) + 1)*NSDAY - 1))))
//@ lemma years-strictly-increasing props C05: forall(y, forall(m, forall(d, implies(validDMY(d, m, y) && 1 <= y, yearsFull(y, m, d) < ite(d < dim(m, y), yearsFull(y, m, d + 1), ite(m < 12, yearsFull(y, m + 1, 1), yearsFull(y + 1, 1, 1)))))))
//@ lemma years-month-inside props C05: forall(y, forall(m, implies(1 <= y && 1 <= m && m <= 12, yearsFull(y, m, 1) <= yearsSpec(0, m, y) && yearsSpec(0, m, y) <= yearsFull(y, m, dim(m, y)))))
//@ lemma years-year-inside props C05: forall(y, implies(1 <= y, yearsFull(y, 1, 1) <= yearsSpec(0, 0, y) && yearsSpec(0, 0, y) <= yearsFull(y, 12, 31)))
//@ lemma years-full-bounds props C05: forall(y, forall(m, forall(d, implies(validDMY(d, m, y), real(y) < yearsFull(y, m, d) && yearsFull(y, m, d) < real(y) + 1.0))))
//@ lemma order-agrees-same-year props C05: forall(y, forall(m, forall(d, forall(m2, forall(d2, implies(validDMY(d, m, y) && validDMY(d2, m2, y), (dayno(y, m, d) < dayno(y, m2, d2)) == (yearsFull(y, m, d) < yearsFull(y, m2, d2))))))))
//@ lemma order-agrees-earlier-year props C05: forall(y, forall(m, forall(d, forall(y2, forall(m2, forall(d2, implies(validDMY(d, m, y) && validDMY(d2, m2, y2) && y < y2, dayno(y, m, d) < dayno(y2, m2, d2) && yearsFull(y, m, d) < yearsFull(y2, m2, d2))))))))
//
//@ spec func timeSpec(d int, m int, y int, eor bool) int = ite(eor, (lastDay(d, m, y) + 1)*NSDAY - 1, firstDay(d, m, y)*NSDAY)
//@ func NewDuration
//@   props C05 C20
//@   ensures result.Duration == abs(duration) && result.IsKnown == isKnown && result.IsEstimate == isEstimate
//@   assigns nothing
//@ func Date.Sub
//@   props C05
//@   requires shapeOK(date.Day, date.Month, date.Year) && shapeOK(date2.Day, date2.Month, date2.Year)
//@   requires !(date.IsEndOfRange && date.Year == 1 && date.Month <= 1 && date.Day <= 1) && !(date2.IsEndOfRange && date2.Year == 1 && date2.Month <= 1 && date2.Day <= 1)
//@   ensures distance: result.Duration == abs(timeSpec(date.Day, date.Month, date.Year, date.IsEndOfRange) - timeSpec(date2.Day, date2.Month, date2.Year, date2.IsEndOfRange))
//@   ensures known: result.IsKnown == isnil(date.ParseError)
//@   assigns nothing
//@ func DateRange.Duration
//@   props C05
//@   requires shapeOK(dr.start.Day, dr.start.Month, dr.start.Year) && shapeOK(dr.end.Day, dr.end.Month, dr.end.Year)
//@   requires !dr.start.IsEndOfRange && dr.end.IsEndOfRange && !(dr.end.Year == 1 && dr.end.Month <= 1 && dr.end.Day <= 1)
//@   requires firstDay(dr.start.Day, dr.start.Month, dr.start.Year) <= lastDay(dr.end.Day, dr.end.Month, dr.end.Year)
//@   ensures length: result.Duration == (lastDay(dr.end.Day, dr.end.Month, dr.end.Year) - firstDay(dr.start.Day, dr.start.Month, dr.start.Year) + 1)*NSDAY - 1
//@   assigns nothing
//@ func DateRange.Years
//@   props C05 C12
//@   requires shapeOK(dr.start.Day, dr.start.Month, dr.start.Year) && shapeOK(dr.end.Day, dr.end.Month, dr.end.Year)
//@   requires !dr.start.IsEndOfRange && dr.end.IsEndOfRange && !(dr.end.Year == 1 && dr.end.Month <= 1 && dr.end.Day <= 1)
//@   ensures midpoint: result == (yearsSpec(dr.start.Day, dr.start.Month, dr.start.Year) + yearsSpec(dr.end.Day, dr.end.Month, dr.end.Year))/2.0
//@   assigns nothing
//@ func DateRange.IsBefore
//@   props C05
//@   requires shapeOK(dr.start.Day, dr.start.Month, dr.start.Year) && shapeOK(dr2.start.Day, dr2.start.Month, dr2.start.Year) && !dr.start.IsEndOfRange && !dr2.start.IsEndOfRange
//@   ensures order: result == (yearsSpec(dr.start.Day, dr.start.Month, dr.start.Year) < yearsSpec(dr2.start.Day, dr2.start.Month, dr2.start.Year))
//@   assigns nothing
//@ func DateRange.IsAfter
//@   props C05
//@   requires shapeOK(dr.end.Day, dr.end.Month, dr.end.Year) && shapeOK(dr2.end.Day, dr2.end.Month, dr2.end.Year) && dr.end.IsEndOfRange && dr2.end.IsEndOfRange
//@   requires !(dr.end.Year == 1 && dr.end.Month <= 1 && dr.end.Day <= 1) && !(dr2.end.Year == 1 && dr2.end.Month <= 1 && dr2.end.Day <= 1)
//@   ensures order: result == (yearsSpec(dr.end.Day, dr.end.Month, dr.end.Year) > yearsSpec(dr2.end.Day, dr2.end.Month, dr2.end.Year))
//@   assigns nothing
